-------------------------------- MODULE TraceNum --------------------------------
(* Trace validation of SAMPLE SETS recorded from the real yuvxyb code (DESIGN.md 5.3).

   The harness (harness/src) drives the public API and logs one ndjson event per call: inputs, config,
   and the exact outputs (floats as exact decimal limbs / raw bits).  This module replays the log:
   every event must be a behaviour the specification allows, i.e. the logged result must stand in
   the relation that ColourScience / MathKernels define for that call.  Events of a sample set are
   independent, so one TLC step consumes a chunk of K events and a failing event is REPORTED
   (PrintT <<"FAIL", id, property, reason>>) instead of stopping the run: one defect never hides the
   rest of the trace.  Acceptance: POSTCONDITION AllConsumed (every chunk was consumed).

   Float wire format:  <<s, l1..l6>> as in FxReal, or <<9, c, 0,0,0,0,0>> for non-numbers:
   c = 1 NaN, 2 +inf, 3 -inf, 4 finite >= 10^8, 5 finite <= -10^8.                              *)
EXTENDS ColourScience, MathKernels, Json, IOUtils, FiniteSets

Rec == ndJsonDeserialize(IOEnv.TRACE)
N   == Len(Rec)
K   == 32                                   \* events per step
NChunks == (N + K - 1) \div K

VARIABLE l

IsNum(x)   == x[1] # 9
\* build tag of the harness that recorded the event: "fast-..." (default features) or "exact-..." (--no-default-features)
IsFast(b)  == SubSeq(b, 1, 4) = "fast"
AllNum3(p) == IsNum(p[1]) /\ IsNum(p[2]) /\ IsNum(p[3])
MinOf(S)   == CHOOSE i \in S : \A j \in S : i <= j
\* verdicts: <<>> = accepted, otherwise <<clause, where...>>
OK == <<>>
FirstBad(clause, bad) == IF bad = {} THEN OK ELSE <<clause, MinOf(bad)>>

Has(e, f) == f \in DOMAIN e

-------------------------------------------------------------------------------------
\* C01  ev = "dec":  Rgb::try_from(&Yuv) on a 4:4:4 image
VDec(e) ==
  LET c == e.cfg IN
  IF ~(c.mc \in Std7 /\ c.n \in Depths) THEN <<"C01.domain">>
  ELSE IF e.res # "ok" THEN <<"C01.result", e.res>>
  ELSE IF Len(e.out) # Len(e.px) THEN <<"C01.shape">>
  ELSE FirstBad("C01.value",
         {i \in 1..Len(e.px) :
            LET ref == DecodeRef(c.mc, c.full = 1, c.n, e.px[i])
                o   == e.out[i]
            IN ~(AllNum3(o) /\ \A k \in 1..3 : Near(o[k], ref[k], Tol01))})

\* C02  ev = "enc":  Yuv::try_from((&Rgb, cfg)), 4:4:4; out = <<Yplane, Uplane, Vplane>> row-major
InEncDomain(q) == AllNum3(q) /\ \A k \in 1..3 : Cmp(q[k], MHalf) >= 0 /\ Cmp(q[k], D(1, 5000, 0, 0, 0)) <= 0
VEnc(e) ==
  LET c == e.cfg  np == Len(e.rgb) IN
  IF ~(c.mc \in Std7 /\ c.n \in Depths) THEN <<"C02.domain">>
  ELSE IF e.res # "ok" THEN <<"C02.result", e.res>>
  ELSE IF e.cfgo # c THEN <<"C02.config">>
  ELSE IF e.wo # e.w \/ e.ho # e.h THEN <<"C02.dims">>
  ELSE IF Len(e.out[1]) # np \/ Len(e.out[2]) # np \/ Len(e.out[3]) # np THEN <<"C02.shape">>
  ELSE FirstBad("C02.code",
         {i \in 1..np :
            /\ InEncDomain(e.rgb[i])
            /\ LET id == EncodeIdeal(c.mc, c.full = 1, c.n, e.rgb[i])
                   mx == FromInt(MaxCode(c.n))
               IN ~(\A p \in 1..3 :
                      /\ e.out[p][i] \in 0..MaxCode(c.n)
                      /\ Near(FromInt(e.out[p][i]), Clamp(id[p], Z, mx), Tol02(c.n)))})

\* C08  ev = "rt":  tab = distinct <<plane, in, out>> of decode-then-encode over the swept triples
VRt(e) ==
  LET c == e.cfg IN
  FirstBad("C08.roundtrip",
    {i \in 1..Len(e.tab) : ~RoundTripOk(c.full = 1, c.n, e.tab[i][1], e.tab[i][2], e.tab[i][3])})
VRtBad(e) == <<"C08.failed", e.what>>

\* C16 (YUV part)  ev = "grey":  chroma = 2^(n-1)
Spread3(o) == Sub(Max(Max(o[1], o[2]), o[3]), Min(Min(o[1], o[2]), o[3]))
VGrey(e) ==
  LET c == e.cfg  full == (c.full = 1) IN
  IF e.res # "ok" THEN (IF c.mc \in Std7 THEN <<"C16.result", e.res>> ELSE OK)     \* non-standard matrices may be unsupported
  ELSE IF Len(e.out) # Len(e.px) THEN <<"C16.shape">>
  \* "mix": a picture with coloured and neutral samples side by side (any subsampling); px[i] is the triple pixel i may
  \* depend on (own luma, chroma sample of its block) and only the pixels whose chroma is neutral are judged
  ELSE FirstBad("C16.grey",
    {i \in 1..Len(e.px) :
       LET o == e.out[i]  y == e.px[i][1] IN
       (~Has(e, "mix") \/ (e.px[i][2] = MidC(c.n) /\ e.px[i][3] = MidC(c.n))) /\
       ~ /\ AllNum3(o)
         /\ e.px[i][2] = MidC(c.n) /\ e.px[i][3] = MidC(c.n)
         /\ Cmp(Spread3(o), Add(TolGreySp, SpecEps)) <= 0
         /\ (y = BlackY(full, c.n) => \A k \in 1..3 : IsZeroBits(e.ob[i][k]))       \* exactly 0 (+0 or -0)
         /\ (y = WhiteY(full, c.n) => \A k \in 1..3 : Near(o[k], One, Tol1em6))})

-------------------------------------------------------------------------------------
\* C03  ev = "tf": one curve, one direction, pixels of samples.  x, y: lists of <<fx,fx,fx>>
InUnit(x) == IsNum(x) /\ x[1] >= 0 /\ Cmp(x, One) <= 0
VTf(e) ==
  IF ~(e.tc \in Tc14) THEN <<"C03.domain">>
  ELSE IF e.res # "ok" THEN <<"C03.result", e.res>>
  ELSE IF Len(e.y) # Len(e.x) THEN <<"C03.shape">>
  ELSE IF e.tc = 8 THEN FirstBad("C03.linear-bits", {i \in 1..Len(e.x) : e.yb[i] # e.xb[i]})
  \* Where the standards circulate more than one set of constants for a curve (sRGB, PQ) CurveRef lists the candidates.
  \* "The curve's defining formula" is ONE formula: some single candidate must explain every sample of the event (not a
  \* different candidate for each sample, which would widen the budget by the distance between the candidates).
  ELSE LET tol == IF IsFast(e.b) THEN CurveTol(e.tc, e.dir) ELSE TolExact
           nv  == Len(CurveRef(e.tc, e.dir, One))
           Good(i, v) == \A k \in 1..3 : InUnit(e.x[i][k]) => (IsNum(e.y[i][k]) /\ Near(e.y[i][k], CurveRef(e.tc, e.dir, e.x[i][k])[v], tol))
       IN IF \E v \in 1..nv : \A i \in 1..Len(e.x) : Good(i, v) THEN OK
          ELSE LET nbad(v) == Cardinality({i \in 1..Len(e.x) : ~Good(i, v)})
                   best == CHOOSE v \in 1..nv : \A u \in 1..nv : nbad(v) <= nbad(u)
               IN FirstBad("C03.curve", {i \in 1..Len(e.x) : ~Good(i, best)})

\* C03  ev = "tfa": the aliases of one curve on a shared input: bit-identical results
VTfa(e) == FirstBad("C03.alias-bits", {k \in 2..Len(e.yb) : e.yb[k] # e.yb[1]})

\* C10  ev = "tfrt": gamma -> linear -> gamma
VTfrt(e) ==
  IF ~(e.tc \in Tc14) THEN <<"C10.domain">>
  ELSE IF e.res # "ok" THEN <<"C10.result", e.res>>
  ELSE IF Len(e.z) # Len(e.x) THEN <<"C10.shape">>
  ELSE FirstBad("C10.roundtrip",
         {i \in 1..Len(e.x) : \E k \in 1..3 :
            /\ InUnit(e.x[i][k])
            /\ ~(IsNum(e.z[i][k]) /\ Near(e.z[i][k], e.x[i][k], RtTol(e.tc)))})

\* C16  ev = "tfanchor": 0 -> 0 within 1e-6 and 1 -> 1 within the C03 budget, for every non-log curve
VTfAnchor(e) ==
  IF e.res # "ok" THEN <<"C16.result", e.res>>
  ELSE IF e.tc \in LogCurves THEN OK
  ELSE FirstBad("C16.curve-anchor",
         {i \in 1..Len(e.x) : \E k \in 1..3 :
            LET x == e.x[i][k]  y == e.y[i][k] IN
            ~ /\ IsNum(y)
              /\ (x = Z => Near(y, Z, Tol1em6))
              /\ (x = One => Near(y, One, CurveTol(e.tc, e.dir)))})

-------------------------------------------------------------------------------------
\* C04  ev = "xyb":  Xyb::from(LinearRgb)
XybOk(p, o) == AllNum3(o) /\ LET r == XybRef(p) IN \A k \in 1..3 : Near(o[k], r[k], Tol2em6)
VXyb(e) ==
  IF e.res # "ok" THEN <<"C04.result", e.res>>
  ELSE IF Len(e.out) # Len(e.in) THEN <<"C04.shape">>
  ELSE FirstBad("C04.value", {i \in 1..Len(e.in) : AllNum3(e.in[i]) /\ InScope04(e.in[i]) /\ ~XybOk(e.in[i], e.out[i])})

\* C05  ev = "xybrt":  LinearRgb::from(Xyb::from(lin));  mid is simultaneously held to the forward definition
VXybRt(e) ==
  IF e.res # "ok" THEN <<"C05.result", e.res>>
  ELSE IF Len(e.back) # Len(e.in) \/ Len(e.mid) # Len(e.in) THEN <<"C05.shape">>
  ELSE LET S == {i \in 1..Len(e.in) : AllNum3(e.in[i]) /\ InUnitCube(e.in[i])}
           badRt  == {i \in S : ~(AllNum3(e.back[i]) /\ \A k \in 1..3 : Near(e.back[i][k], e.in[i][k], Tol5em5))}
       IN IF badRt # {} THEN <<"C05.roundtrip", MinOf(badRt)>>
          ELSE FirstBad("C05.forward", {i \in S : ~XybOk(e.in[i], e.mid[i])})

\* C06  ev = "prim":  primaries <-> BT.709 working space with transfer = Linear; out, back (+ raw bits)
InPrimDomain(p) == AllNum3(p) /\ \A k \in 1..3 : Cmp(p[k], MHalf) >= 0 /\ Cmp(p[k], Two) <= 0
VPrim(e) ==
  IF ~(e.cp \in Cp11) THEN <<"C06.domain">>
  ELSE IF e.res # "ok" THEN <<"C06.result", e.res>>
  ELSE IF Len(e.out) # Len(e.in) \/ Len(e.back) # Len(e.in) THEN <<"C06.shape">>
  ELSE IF e.cp = 1 THEN FirstBad("C06.identity-bits", {i \in 1..Len(e.in) : e.outb[i] # e.ib[i] \/ e.backb[i] # e.ib[i]})
  ELSE LET S == {i \in 1..Len(e.in) : InPrimDomain(e.in[i])}
           badV == {i \in S : LET r == PrimRef(e.cp, e.dir, e.in[i]) IN
                      ~(AllNum3(e.out[i]) /\ \A k \in 1..3 : Near(e.out[i][k], r[k], RelTol5(r[k])))}
           badW == {i \in S : e.in[i] = <<One, One, One>> /\ ~(\A k \in 1..3 : Near(e.out[i][k], One, Tol1em5))}
           badB == {i \in S : ~(AllNum3(e.back[i]) /\ \A k \in 1..3 : Near(e.back[i][k], e.in[i][k], Tol1em5))}
       IN IF badV # {} THEN <<"C06.matrix", MinOf(badV)>>
          ELSE IF badW # {} THEN <<"C06.white", MinOf(badW)>>
          ELSE FirstBad("C06.there-and-back", badB)

\* C17  ev = "hsl":  Hsl::from(lin) and back;  out = <<H, S, L>>
T001   == D(0, 0100, 0, 0, 0)
T099   == D(0, 9900, 0, 0, 0)
HslRangeOk(o) == /\ AllNum3(o)
                 /\ o[1][1] >= 0 /\ Cmp(o[1], F360) < 0
                 /\ o[2][1] >= 0 /\ Cmp(o[2], One) <= 0
                 /\ o[3][1] >= 0 /\ Cmp(o[3], One) <= 0
HslModelOk(p, o) ==
  LET mx == Max3(p)  mn == Min3(p)  c == Sub(mx, mn)
      L  == DivInt(Add(mx, mn), 2)
      w  == Sub(One, Abs(Sub(MulInt(L, 2), One)))              \* 1 - |2L - 1|
  IN /\ Near(o[3], L, Tol1em6)
     /\ (Cmp(L, T001) >= 0 /\ Cmp(L, T099) <= 0) =>
           Cmp(Abs(Sub(Mul(o[2], w), c)), Add(Mul(Tol1em4, w), SpecEps)) <= 0
     /\ (Cmp(c, T001) >= 0) => NearMod360(o[1], HueRef(p), T001)
VHsl(e) ==
  IF e.res # "ok" THEN <<"C17.result", e.res>>
  ELSE IF Len(e.out) # Len(e.in) \/ Len(e.back) # Len(e.in) THEN <<"C17.shape">>
  ELSE LET S == {i \in 1..Len(e.in) : AllNum3(e.in[i]) /\ InUnitCube(e.in[i])}
           badR == {i \in S : ~HslRangeOk(e.out[i])}
           badM == {i \in S : AllNum3(e.out[i]) /\ ~HslModelOk(e.in[i], e.out[i])}
           badB == {i \in S : ~(AllNum3(e.back[i]) /\ \A k \in 1..3 : Near(e.back[i][k], e.in[i][k], Tol1em5))}
       IN IF badR # {} THEN <<"C17.range", MinOf(badR)>>
          ELSE IF badM # {} THEN <<"C17.hexcone", MinOf(badM)>>
          ELSE FirstBad("C17.roundtrip", badB)
\* ev = "hslinv":  LinearRgb::from(Hsl) for H in [0,360), S in [0,1], L in {0,1}: L = 0 black, L = 1 white
VHslInv(e) ==
  IF e.res # "ok" THEN <<"C17.result", e.res>>
  ELSE FirstBad("C17.L-anchor",
    {i \in 1..Len(e.in) :
       LET p == e.in[i] IN
       /\ AllNum3(p) /\ p[1][1] >= 0 /\ Cmp(p[1], F360) < 0 /\ p[2][1] >= 0 /\ Cmp(p[2], One) <= 0
       /\ (p[3] = Z \/ p[3] = One)
       /\ ~(AllNum3(e.out[i]) /\ \A k \in 1..3 : Near(e.out[i][k], p[3], Tol1em5))})

\* C16  grey through XYB, HSL and the primaries stage
IsGreyIn(p) == AllNum3(p) /\ p[1] = p[2] /\ p[2] = p[3]
VXybGrey(e) ==
  IF e.res # "ok" THEN <<"C16.result", e.res>>
  ELSE FirstBad("C16.xyb-grey",
    {i \in 1..Len(e.in) : LET p == e.in[i]  o == e.out[i] IN
       IsGreyIn(p) /\ InUnitCube(p) /\
       ~ /\ AllNum3(o) /\ Near(o[1], Z, Tol1em6) /\ Near(o[2], o[3], Tol1em6)
         /\ (p[1] = Z => \A k \in 1..3 : Near(o[k], Z, Tol1em6))})
VHslGrey(e) ==
  IF e.res # "ok" THEN <<"C16.result", e.res>>
  ELSE FirstBad("C16.hsl-grey",
    {i \in 1..Len(e.in) : LET p == e.in[i]  o == e.out[i] IN
       IsGreyIn(p) /\ InUnitCube(p) /\ ~(AllNum3(o) /\ o[1] = Z /\ o[2] = Z /\ Near(o[3], p[1], Tol1em6))})
VPrimGrey(e) ==
  IF e.res # "ok" THEN <<"C16.result", e.res>>
  ELSE FirstBad("C16.prim-grey",
    {i \in 1..Len(e.in) : LET p == e.in[i]  o == e.out[i] IN
       IsGreyIn(p) /\ InPrimDomain(p) /\ ~(AllNum3(o) /\ Cmp(Spread3(o), Add(RelTol5(p[1]), SpecEps)) <= 0)})

-------------------------------------------------------------------------------------
\* C19  ev = "mat": every public operation of the 3x3 algebra on one operand set, f32 or f64
VMat(e) ==
  IF ~(MatIn2(e.A) /\ MatIn2(e.B) /\ VecIn2(e.v) /\ VecIn2(e.u) /\ InBox2(e.x)) THEN <<"C19.domain">> ELSE
  LET rx == Recip(e.x)
      det == Det3(e.A)
      bad == <<
        <<"mul_vec",  VecOk(e.mul_vec, MatVec(e.A, e.v))>>,
        <<"mul_arr",  VecOk(e.mul_arr, MatVec(e.A, e.v))>>,
        <<"mul_mat",  MatOk(e.mul_mat, MatMul(e.A, e.B))>>,
        <<"transpose", e.tr = Transpose(e.A)>>,
        <<"transpose-involution", e.ttb = e.Ab>>,
        <<"col-transpose", e.colt = e.v>>,
        <<"cross",    VecOk(e.cross, Cross3(e.v, e.u))>>,
        <<"dot",      NumOk(e.dot, Dot3(e.v, e.u))>>,
        <<"vec-scalar_div", VecOk(e.vdiv, ScaleVec(e.v, rx))>>,
        <<"component_mul",  VecOk(e.cmul, CMul(e.v, e.u))>>,
        <<"mat-scalar_div", MatOk(e.mdiv, <<ScaleVec(e.A[1], rx), ScaleVec(e.A[2], rx), ScaleVec(e.A[3], rx)>>)>>,
        <<"identity-left",  e.idl = e.A>>,
        <<"identity-right", e.idr = e.A>>,
        <<"identity-vec",   e.idv = e.v>>,
        <<"invert", Cmp(Abs(det), Half) < 0 \/
                    (e.invp = 0 /\ MatAllNum(e.inv) /\ NearIdent(MatMul(e.A, e.inv)) /\ NearIdent(MatMul(e.inv, e.A)))>> >>
      failing == {k \in 1..Len(bad) : ~bad[k][2]}
  IN IF failing = {} THEN OK ELSE <<"C19." \o bad[MinOf(failing)][1], e.t>>

\* C19  ev = "sdiv": s = list of <<v_me, x_me, r_vec_me, r_mat_diag_me, r_mat_offdiag_me>>: scalar_div of operands in [-2, 2]
\* that are too small for the decimal format.  The quotient is formed in the log domain; tolerance 1e-5 * max(1, |q|).
\* Quotients beyond f32's range (ln q > 88) are out of scope; the off-diagonal entry divides an exact 0.
Ln1p1em5 == Ln(Add(One, D(0, 0, 1000, 0, 0)))
SmallAbs(r) == \/ r[1] = 0
               \/ (r[1] \in {1, 2} /\ r[4] + 23 <= -16)
               \/ (r[1] \in {1, 2} /\ r[4] + 23 <= 2 /\ Cmp(Abs(FxOfME(r)), Add(D(0, 0, 1000, 0, 0), SpecEps)) <= 0)
QuotOk(v, x, r) ==
  IF v[1] = 0 THEN SmallAbs(r)
  ELSE LET lq == Sub(LnME(v), LnME(x))  sgn == v[2] * x[2] IN
       IF Cmp(lq, FromInt(88)) > 0 THEN TRUE
       ELSE IF Cmp(lq, Z) > 0 THEN r[1] = 1 /\ r[2] = sgn /\ Cmp(Abs(Sub(LnME(r), lq)), Add(Ln1p1em5, SpecEps)) <= 0
       ELSE IF Cmp(lq, FromInt(-30)) < 0 THEN SmallAbs(r)
       ELSE r[1] \in {0, 1, 2} /\ (r[1] = 0 \/ r[4] + 23 <= 2) /\
            LET q == Exp(lq)  rf == IF r[1] = 0 \/ r[4] + 23 <= -60 THEN Z ELSE FxOfME(r) IN
            Cmp(Abs(Sub(rf, IF sgn < 0 THEN Neg(q) ELSE q)), Add(D(0, 0, 1000, 0, 0), SpecEps)) <= 0
VSdiv(e) ==
  FirstBad("C19.scalar_div-small-operands",
    {i \in 1..Len(e.s) : LET v == e.s[i][1]  x == e.s[i][2] IN
       v[1] \in {0, 1, 2} /\ x[1] \in {1, 2} /\
       ~(QuotOk(v, x, e.s[i][3]) /\ QuotOk(v, x, e.s[i][4]) /\ SmallAbs(e.s[i][5]))})

\* C18  ev = "cbrt": s = list of <<x_me, t_me, t_bits, t(-x)_bits>>
UlpBudget(b)  == IF SubSeq(b, 1, 4) = "fast" THEN 1 ELSE 2          \* C20: exact build = libm within 2 ulp
VCbrt(e) == FirstBad("C18.cbrtf",
  {i \in 1..Len(e.s) : LET r == e.s[i] IN
     IsNormal(r[1]) /\ ~(CbrtWithin(r[1], r[2], UlpBudget(e.b)) /\ r[4] = NegBits(r[3]))})
\* ev = "pow": s = list of <<x_me, y_fx, r_me>>
PowTol(b, y) == IF SubSeq(b, 1, 4) = "fast" THEN PowTolFast(y) ELSE TwoUlpRel
VPow(e) == FirstBad("C18.powf",
  {i \in 1..Len(e.s) : LET r == e.s[i] IN PowInScope(r[1], r[2]) /\ ~PowOk(r[1], r[2], r[3], PowTol(e.b, r[2]))})
\* ev = "exp": s = list of <<x_fx, x_me, r_me>>
ExpTol(b) == IF SubSeq(b, 1, 4) = "fast" THEN ExpTolFast ELSE TwoUlpRel
VExp(e) == IF \E i \in 1..Len(e.s) : ~WireConsistent(e.s[i][1], e.s[i][2]) THEN <<"TOOL.wire-encodings-disagree">>
           ELSE FirstBad("C18.expf", {i \in 1..Len(e.s) : LET r == e.s[i] IN ~ExpOk(r[1], r[2], r[3], ExpTol(e.b), IsFast(e.b))})
\* ev = "mathtot": special values and random bit patterns through one helper; panics caught, exp2 hook summarised
VMathTot(e) ==
  IF e.panics # 0 THEN <<"C18.total-panic", e.fn, e.first_panic>>
  ELSE FirstBad("C18.total-ub", {k \in 1..Len(e.hooks) : e.hooks[k].bad # 0})

-------------------------------------------------------------------------------------
(* C07 / C13  ev = "total": one conversion call on a batch of pixels (special-value cube, random bit
   patterns, unit cube, or a geometry case), run under catch_unwind in a child process with the unsafe-site
   hooks in Summary mode.  hooks[k] = [site, n, bad, max, len, fmin, fmax].
   C07 reads the hook summaries (no unchecked access out of its slice; nothing but a finite in-range value
   reaches the unchecked float->int cast).  C13 reads the outcome (never a panic or an abort; produced YUV
   codes <= 2^n - 1 and re-wrappable; finite results on the unit cube).                            *)
HookOk(h) ==
  /\ h.bad = 0                                             \* the hook saw no NaN / inf / value outside i32 at the cast, no index >= length
  /\ (h.site # "exp2_cast" /\ h.n > 0) => h.max < h.len    \* re-derived here from the logged extrema
YuvStage(e) == e.stage \in {"enc", "LinToYuv", "XybToYuv"}
\* a child process that dies of a signal while converting (std's unsafe-precondition checks abort in the checked
\* profile; SIGSEGV / SIGBUS anywhere) is the runtime's own observation of undefined behaviour
VTotalC07(e) == IF e.res = "abort" THEN <<"C07.process-aborted", e.status>>
                ELSE FirstBad("C07.unsafe-site", {k \in 1..Len(e.hooks) : ~HookOk(e.hooks[k])})
VTotalC13(e) ==
  IF e.res \in {"panic", "abort"} THEN <<"C13.total", e.res>>
  ELSE IF e.stage = "batch" THEN <<"C13.total", e.res>>
  \* a declared error is not a panic: C13 only demands success where it says so (finite unit-cube data must give finite
  \* results); that supported configurations succeed on ordinary data is the business of C01-C06/C14
  ELSE IF e.res # "ok" THEN
         (IF e.res \in {"UnsupportedMatrixCoefficients", "UnspecifiedMatrixCoefficients", "UnsupportedColorPrimaries",
                        "UnspecifiedColorPrimaries", "UnsupportedTransferCharacteristic", "UnspecifiedTransferCharacteristic"}
             /\ (e.input # "unit" \/ (YuvStage(e) /\ Has(e, "divisible") /\ e.divisible = 0))
          THEN OK ELSE <<"C13.supported-config-failed", e.res>>)
  ELSE IF YuvStage(e) /\ ~(e.maxcode <= Pow2(e.cfg.n) - 1) THEN <<"C13.code-out-of-range", e.maxcode>>
  ELSE IF YuvStage(e) /\ e.rewrap # "ok" THEN <<"C13.not-rewrappable", e.rewrap>>
  ELSE IF YuvStage(e) /\ (e.wo # e.w \/ e.ho # e.h) THEN <<"C13.dims">>
  ELSE IF ~YuvStage(e) /\ e.len # e.npx THEN <<"C13.dims">>
  ELSE IF ~YuvStage(e) /\ e.input = "unit" /\ e.nonfinite # 0 THEN <<"C13.non-finite-on-unit-cube", e.nonfinite>>
  ELSE OK
\* C20  ev = "pair": the same call recorded by the fastmath build (a) and the exact build (b) of one (FMA, profile)
\* setting; the two must agree within the fastmath budget of that call.  Pairs whose inputs differ (the screened
\* part of a sweep depends on the build) are not comparable and are skipped.
LnClose(ra, rb, tol) == IsNormal(ra) /\ IsNormal(rb) /\ ra[2] = rb[2] /\ Cmp(Abs(Sub(LnME(ra), LnME(rb))), Add(tol, SpecEps)) <= 0
VPair(e) ==
  LET a == e.a  b == e.b2 IN
  CASE a.ev = "tf" ->
         IF a.x # b.x \/ a.res # "ok" \/ b.res # "ok" \/ a.tc = 8 THEN OK
         ELSE FirstBad("C20.builds-disagree-curve",
                {i \in 1..Len(a.x) : \E k \in 1..3 : InUnit(a.x[i][k]) /\
                    ~(IsNum(a.y[i][k]) /\ IsNum(b.y[i][k]) /\ Near(a.y[i][k], b.y[i][k], CurveTol(a.tc, a.dir)))})
    [] a.ev = "xyb" ->
         IF a.in # b.in \/ a.res # "ok" \/ b.res # "ok" THEN OK
         ELSE FirstBad("C20.builds-disagree-xyb",
                {i \in 1..Len(a.in) : AllNum3(a.in[i]) /\ InScope04(a.in[i]) /\
                    ~(AllNum3(a.out[i]) /\ AllNum3(b.out[i]) /\ \A k \in 1..3 : Near(a.out[i][k], b.out[i][k], Tol2em6))})
    [] a.ev = "pow" ->
         FirstBad("C20.builds-disagree-powf",
                {i \in 1..Len(a.s) : a.s[i][1] = b.s[i][1] /\ a.s[i][2] = b.s[i][2] /\ PowInScope(a.s[i][1], a.s[i][2]) /\
                    ~LnClose(a.s[i][3], b.s[i][3], PowTolFast(a.s[i][2]))})
    [] a.ev = "exp" ->
         FirstBad("C20.builds-disagree-expf",
                {i \in 1..Len(a.s) : a.s[i][1] = b.s[i][1] /\ a.s[i][1][1] # 9 /\ Cmp(Abs(a.s[i][1]), X85) <= 0 /\
                    ~LnClose(a.s[i][3], b.s[i][3], ExpTolFast)})
    [] OTHER -> OK
VTotal(e) == IF e.p = "C07" THEN VTotalC07(e)
             ELSE IF e.p = "C13" THEN VTotalC13(e)
             ELSE LET a == VTotalC07(e) IN IF a # OK THEN a ELSE VTotalC13(e)

-------------------------------------------------------------------------------------
(* C09  ev = "c09i": YUV -> XYB -> YUV on an in-gamut image that did NOT come out of the library's own encoder.
   The harness quantises unit-cube RGB itself; the DOMAIN is re-established here: every input code must be within
   half a code (+1e-6*2^n) of ColourScience!EncodeIdeal of the logged RGB, RGB in [0,1]^3, block-constant for
   subsampled configs.  Then the budget relation of C09 on the round trip.                        *)
AbsI(x) == IF x < 0 THEN -x ELSE x
VC09i(e) ==
  LET c == e.cfg  full == (c.full = 1)  np == Len(e.rgb)  mx == FromInt(MaxCode(c.n))
      cw == Shr(e.w, c.ssx)
      InDomain(i) == /\ AllNum3(e.rgb[i]) /\ InUnitCube(e.rgb[i])
                     /\ LET id == EncodeIdeal(c.mc, full, c.n, e.rgb[i]) IN
                        \A p \in 1..3 : Near(FromInt(e.codes[i][p]), Clamp(id[p], Z, mx), Tol02(c.n))
      BlockConst == \A x \in 0..(e.w - 1), y \in 0..(e.h - 1) :
                      e.codes[y * e.w + x + 1] = e.codes[(Shr(y, c.ssy) * Pow2(c.ssy)) * e.w + Shr(x, c.ssx) * Pow2(c.ssx) + 1]
  IN IF ~(c.mc \in Std7 /\ c.tc \in Tc14 /\ c.cp \in Cp11 \ {10}) THEN <<"C09.domain">>
     ELSE IF \E i \in 1..np : ~InDomain(i) THEN <<"C09.domain-input-not-an-in-gamut-encoding">>
     ELSE IF ~BlockConst THEN <<"C09.domain-not-block-constant">>
     ELSE IF e.res # "ok" THEN <<"C09.result", e.res>>
     ELSE IF e.wo # e.w \/ e.ho # e.h THEN <<"C09.dims">>
     ELSE IF e.cfgo # e.cfgi \/ e.cfgi # c THEN <<"C09.config">>
     ELSE IF \E p \in 1..3 : Len(e.out[p]) # Len(e.in[p]) THEN <<"C09.shape">>
     ELSE LET bad == {q \in {<<p, i>> : p \in 1..3, i \in 1..Len(e.in[1])} :
                        q[2] <= Len(e.in[q[1]]) /\ AbsI(e.out[q[1]][q[2]] - e.in[q[1]][q[2]]) > Budget09(c.n)} IN
          IF bad = {} THEN OK ELSE LET q == CHOOSE x \in bad : TRUE IN <<"C09.budget", q, e.in[q[1]][q[2]], e.out[q[1]][q[2]], Budget09(c.n)>>

-------------------------------------------------------------------------------------
Verdict(e) ==
  CASE e.ev = "dec"    -> VDec(e)
    [] e.ev = "enc"    -> VEnc(e)
    [] e.ev = "rt"     -> VRt(e)
    [] e.ev = "rt_bad" -> VRtBad(e)
    [] e.ev = "grey"   -> VGrey(e)
    [] e.ev = "tf"     -> VTf(e)
    [] e.ev = "tfa"    -> VTfa(e)
    [] e.ev = "tfrt"   -> VTfrt(e)
    [] e.ev = "tfanchor" -> VTfAnchor(e)
    [] e.ev = "mat"    -> VMat(e)
    [] e.ev = "sdiv"   -> VSdiv(e)
    \* (a C07 run reuses the C18 family for its totality events only: accuracy is not C07's business)
    [] e.ev \in {"cbrt", "pow", "exp"} /\ e.p = "C07" -> OK
    [] e.ev = "cbrt"   -> VCbrt(e)
    [] e.ev = "pow"    -> VPow(e)
    [] e.ev = "exp"    -> VExp(e)
    [] e.ev = "mathtot" -> VMathTot(e)
    [] e.ev = "total"  -> VTotal(e)
    [] e.ev = "pair"   -> VPair(e)
    [] e.ev = "c09i"   -> VC09i(e)
    [] e.ev = "xyb"    -> VXyb(e)
    [] e.ev = "xybrt"  -> VXybRt(e)
    [] e.ev = "prim"   -> VPrim(e)
    [] e.ev = "hsl"    -> VHsl(e)
    [] e.ev = "hslinv" -> VHslInv(e)
    [] e.ev = "xybgrey"  -> VXybGrey(e)
    [] e.ev = "hslgrey"  -> VHslGrey(e)
    [] e.ev = "primgrey" -> VPrimGrey(e)
    [] OTHER           -> <<"unknown-event", e.ev>>

Judge(i) == LET v == Verdict(Rec[i]) IN
            IF v = OK THEN TRUE ELSE PrintT("FAIL " \o ToJson(<<Rec[i].id, Rec[i].p, v>>))

Init == l = 0
Next == /\ l < NChunks
        /\ l' = l + 1
        /\ \A i \in (l * K + 1)..(IF (l + 1) * K < N THEN (l + 1) * K ELSE N) : Judge(i)
Spec == Init /\ [][Next]_l

\* POSTCONDITION: the chain of chunks was walked to the end (diameter counts the initial state)
AllConsumed ==
  LET d == TLCGet("stats").diameter IN
  IF d - 1 = NChunks THEN PrintT("DONE " \o ToString(N)) ELSE PrintT("STUCK " \o ToString(d - 1) \o " " \o ToString(NChunks)) /\ FALSE
=====================================================================================
