---------------------------------- MODULE Enums ----------------------------------
(* H.273 code points used as enumeration values everywhere (spec, traces, harness).
     MatrixCoefficients  0 Identity 1 BT709 2 Unspecified 3 Reserved 4 BT470M(FCC) 5 BT470BG 6 ST170M
                         7 ST240M 8 YCgCo 9 BT2020NCL 10 BT2020CL 11 ST2085 12 ChromaNCL 13 ChromaCL 14 ICtCp
     ColourPrimaries     0 Reserved0 1 BT709 2 Unspecified 3 Reserved 4 BT470M 5 BT470BG 6 ST170M 7 ST240M
                         8 Film 9 BT2020 10 ST428 11 P3DCI 12 P3Display 22 Tech3213(EBU)
     TransferCharacteristics 0 Reserved0 1 BT1886(BT709) 2 Unspecified 3 Reserved 4 BT470M 5 BT470BG
                         6 ST170M 7 ST240M 8 Linear 9 Log100 10 Log316 11 XVYCC 12 BT1361E 13 SRGB
                         14 BT2020Ten 15 BT2020Twelve 16 PQ 17 ST428 18 HLG                          *)
EXTENDS Integers
McAll == 0..14
CpAll == (0..12) \cup {22}
TcAll == 0..18
Unspec == 2                                                   \* "Unspecified" in all three enumerations
Std7  == {1, 4, 5, 6, 7, 8, 9}                                \* the 7 standard non-constant-luminance matrices
Tc14  == {1, 4, 5, 6, 7, 8, 9, 10, 11, 13, 14, 15, 16, 18}    \* the 14 supported curves
Cp11  == {1, 4, 5, 6, 7, 8, 9, 10, 11, 12, 22}                \* the 11 supported primaries
Depths == 8..16
Pow2(n) == 2^n
Shr(x, s) == x \div Pow2(s)
\* C09 budget in codes: max(1, floor(0.015 * (2^n - 1)))
Budget09(n) == LET b == (15 * (Pow2(n) - 1)) \div 1000 IN IF b < 1 THEN 1 ELSE b
=====================================================================================
