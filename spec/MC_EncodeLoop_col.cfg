SPECIFICATION ESpec
CONSTANTS
  MaxW = 8
  MaxH = 8
  SsPairs <- SsSixE
  Strategy = "col"
INVARIANTS ChromaFromBlock EveryLumaOnce ChromaCovered NoStuck
CHECK_DEADLOCK FALSE
