---------------------------------- MODULE EncodeLoop ----------------------------------
(* The write-skipping encode loop as a fine-grained state machine (design level, C11 / C07).

   The loop of the RGB->YUV stage visits pixels in row-major order, writes the luma sample of every
   pixel and writes the chroma samples of a pixel only when its chroma position differs from the one
   written last (`last`), a piece of sequential state carried across iterations and rows.  This module
   models exactly that strategy (one step per pixel) for every geometry in bounds and lets TLC check
   the contract that TraceLoops.tla demands of the real code:
      EveryLumaOnce     at the end every luma cell was written exactly once, from its own pixel
      ChromaFromBlock   every chroma write comes from a pixel inside the cell's block
      ChromaCovered     at the end every chroma cell was written at least once
      InPlane           every write lands on a visible sample of a (w>>ssx) x (h>>ssy) plane (C07)
   `Strategy` selects the dedup key:  "pos" = the plane offset cy * stride + cx (the pinned code);
   "col" = only the chroma column (a plausible refactoring that is WRONG for one-column chroma planes:
   TLC must find the counterexample - self-test MC_EncodeLoop_col.cfg).                          *)
EXTENDS Enums, FiniteSets, TLC

CONSTANTS MaxW, MaxH, SsPairs, Strategy
VARIABLES w, h, ssx, ssy, pos, last, ycount, usrc
evars == <<w, h, ssx, ssy, pos, last, ycount, usrc>>

Cw == Shr(w, ssx)
Ch == Shr(h, ssy)
Stride == 64 * ((Cw + 63) \div 64)                 \* any stride >= Cw works; 64-sample alignment as v_frame does
None == -1
SsSixE == {<<0, 0>>, <<1, 0>>, <<1, 1>>, <<0, 1>>, <<2, 0>>, <<2, 2>>}

EInit == /\ w \in 1..MaxW /\ h \in 1..MaxH
         /\ \E s \in SsPairs : ssx = s[1] /\ ssy = s[2]
         /\ w % Pow2(ssx) = 0 /\ h % Pow2(ssy) = 0          \* the encoder is only defined for sizes the constructor accepts
         /\ pos = 0 /\ last = None
         /\ ycount = [c \in (0..(w - 1)) \X (0..(h - 1)) |-> 0]
         /\ usrc = [c \in (0..(Cw - 1)) \X (0..(Ch - 1)) |-> {}]
Key(cx, cy) == IF Strategy = "pos" THEN cy * Stride + cx ELSE cx
Step == /\ pos < w * h
        /\ LET x == pos % w  y == pos \div w  cx == Shr(x, ssx)  cy == Shr(y, ssy) IN
             /\ ycount' = [ycount EXCEPT ![<<x, y>>] = @ + 1]
             /\ IF Key(cx, cy) # last
                  THEN /\ <<cx, cy>> \in DOMAIN usrc                      \* InPlane: the write lands inside the chroma plane
                       /\ usrc' = [usrc EXCEPT ![<<cx, cy>>] = @ \cup {<<x, y>>}]
                       /\ last' = Key(cx, cy)
                  ELSE UNCHANGED <<usrc, last>>
             /\ pos' = pos + 1
        /\ UNCHANGED <<w, h, ssx, ssy>>
Done == pos = w * h
ESpec == EInit /\ [][Step]_evars

InBlock(p, c) == Shr(p[1], ssx) = c[1] /\ Shr(p[2], ssy) = c[2]
ChromaFromBlock == \A c \in DOMAIN usrc : \A p \in usrc[c] : InBlock(p, c)
EveryLumaOnce   == Done => \A c \in DOMAIN ycount : ycount[c] = 1
ChromaCovered   == Done => \A c \in DOMAIN usrc : usrc[c] # {}
\* a step is always possible until the end (the InPlane conjunct never blocks): no deadlock before Done
NoStuck == ~Done => ENABLED Step
=====================================================================================
