---------------------------------- MODULE MC_Geom ----------------------------------
(* Leg 1 for C07/C12: every frame geometry within bounds that the constructor contract accepts keeps
   every access of the decode loop inside its slice and on a visible sample.  Frames are enumerated
   as initial states (factorised: the U plane free with V as implied, V free with U as implied, and a
   both-free diagonal), one invariant evaluation per frame over all of its pixels.
   With NoChromaSizeCheck = TRUE (what the pinned code's constructor checked) TLC must find the
   1x1-chroma counterexample: that is the self-test showing the invariant is not vacuous.        *)
EXTENDS Planes, TLC, Json

CONSTANTS LumaW, LumaH, ChromaW, ChromaH, Decs, Pads, Sts, SsPairs, NoChromaSizeCheck
VARIABLES f, c
gvars == <<f, c>>
SsSix == {<<0, 0>>, <<1, 0>>, <<1, 1>>, <<0, 1>>, <<2, 0>>, <<2, 2>>}

G(w, h, xd, yd, xp, yp) == [w |-> w, h |-> h, xdec |-> xd, ydec |-> yd, xpad |-> xp, ypad |-> yp]
Implied(lw, lh, s, xp) == G(Shr(lw, s[1]), Shr(lh, s[2]), s[1], s[2], xp, xp)
FreePlanes == {G(w, h, xd, yd, xp, xp) : w \in ChromaW, h \in ChromaH, xd \in Decs, yd \in Decs, xp \in Pads}

GInit ==
  \E lw \in LumaW, lh \in LumaH, st \in Sts, s \in SsPairs, lp \in Pads, fp \in FreePlanes, which \in {2, 3, 4}, op \in Pads :
    /\ c = [ssx |-> s[1], ssy |-> s[2]]
    /\ f = [st |-> st,
            p |-> << G(lw, lh, 0, 0, lp, lp),
                     IF which \in {2, 4} THEN fp ELSE Implied(lw, lh, s, op),
                     IF which \in {3, 4} THEN fp ELSE Implied(lw, lh, s, op) >>]
GNext == UNCHANGED gvars
GSpec == GInit /\ [][GNext]_gvars

Accepts(ff, cc) == IF NoChromaSizeCheck THEN DecimationOk(ff, cc) /\ LumaWidthOk(ff, cc) /\ LumaHeightOk(ff, cc)
                   ELSE WellFormedSize(ff, cc)
AcceptedFramesAreSafe == Accepts(f, c) => Safe(f, c)
\* a frame whose chroma planes cannot cover the luma plane is rejected (C07)
UncoveredRejected == ~CoversLuma(f, c) => ~Accepts(f, c)
\* the error contract is never empty for a rejected frame
RejectedHasError == ~WellFormedSize(f, c) => SizeErrors(f, c) # {}

\* the plan the harness enumerates (same constants, one source of truth)
Plan == [lw |-> LumaW, lh |-> LumaH, cw |-> ChromaW, ch |-> ChromaH, decs |-> Decs, pads |-> Pads, sts |-> Sts,
         ss |-> {<<s[1], s[2]>> : s \in SsPairs}]
ASSUME PrintT("PLAN " \o ToJson(Plan))
=====================================================================================
