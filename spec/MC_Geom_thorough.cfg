SPECIFICATION GSpec
CONSTANTS
  LumaW = {1, 2, 3, 4, 5, 6, 8, 12}
  LumaH = {1, 2, 3, 4, 5, 6, 8, 12}
  ChromaW = {0, 1, 2, 3, 4, 5, 6, 7, 8, 12}
  ChromaH = {0, 1, 2, 3, 4, 5, 6, 7, 8, 12}
  Decs = {0, 1, 2}
  Pads = {0, 17}
  Sts = {8, 16}
  SsPairs <- SsSix
  NoChromaSizeCheck = FALSE
INVARIANTS AcceptedFramesAreSafe UncoveredRejected RejectedHasError
CHECK_DEADLOCK FALSE
