---------------------------------- MODULE MC_Behav ----------------------------------
(* Spec -> implementation with BEHAVIOURS (sequences of calls on one live object), complementing MC_Emit's single
   transitions: TLC explores Yuvxyb!Spec to depth MaxCalls with a history variable and prints every maximal behaviour
   once ("BH " + JSON array of steps).  A step carries the model's pre-state, the call, its arguments (and their
   resolution), the model's outcome and post-state - the same record MC_Emit prints for one transition.

   The harness performs the calls ONE AFTER THE OTHER ON THE SAME OBJECT (constructor first; conversions consume or
   borrow it as the API says; MutatePayload paints fresh samples through data_mut(); Clone continues on the clone;
   IntoData ends the session), logs the abstract projection of the object before and after every step, and repeats every
   conversion on a FRESH object built from the live object's current samples and labels.  TraceSession.tla then checks,
   step by step: the object's state before the call is the model's state (the two stay in lock step along the whole
   behaviour), the outcome and the labels are what the contract allows, the dimensions are preserved, and the result
   does not depend on how the object came to hold its samples (bit-identical to the fresh object's result).

   The cross product of configurations is cut to a handful of target configs / label pairs (BFilter): the sequences
   are the point here, the configuration space is MC_Emit's business.                                             *)
EXTENDS Yuvxyb, Json

VARIABLE hist
bvars == <<img, last, ncalls, hist>>

BehavSizes == {<<4, 2>>}
BehavSizesThorough == {<<4, 2>>, <<2, 576>>}
BSs == {<<0, 0>>, <<1, 1>>}
BQuirksOff == [lin_to_yuv_raw_cfg |-> FALSE, rgb_to_yuv_panics_on_odd |-> FALSE, lin_to_rgb_primaries_first |-> FALSE]

Cfg(mc, tc, cp, full, n, ss, st) == [mc |-> mc, tc |-> tc, cp |-> cp, full |-> full, n |-> n, ssx |-> ss, ssy |-> ss, st |-> st]
\* two of them leave every colour field Unspecified and differ in depth, subsampling, range and storage (a resolution
\* remembered from one call must not leak into the next)
BCfgs == {Cfg(1, 1, 1, 0, 8, 0, 8), Cfg(2, 2, 2, 0, 10, 1, 16), Cfg(2, 2, 2, 1, 8, 0, 8), Cfg(6, 13, 2, 1, 8, 0, 16), Cfg(9, 16, 9, 1, 10, 1, 16)}
BRgbArgs == {[tc |-> 13, cp |-> 1], [tc |-> 2, cp |-> 2], [tc |-> 16, cp |-> 9]}

BFilter ==
  /\ (last'.call = "NewYuv" => last'.args.cfg \in BCfgs)
  /\ (last'.call \in {"RgbToYuv", "LinToYuv", "XybToYuv"} => last'.args \in BCfgs)
  /\ (last'.call \in {"NewRgb", "LinToRgb", "XybToRgb"} => [tc |-> last'.args.tc, cp |-> last'.args.cp] \in BRgbArgs)
  /\ (last'.call \in {"NewYuv", "RgbToYuv", "LinToYuv", "XybToYuv"} =>
         Dividable(IF last'.call = "NewYuv" THEN last'.args.w ELSE img.w,
                   IF last'.call = "NewYuv" THEN last'.args.h ELSE img.h,
                   (IF last'.call = "NewYuv" THEN last'.args.cfg ELSE last'.args).ssx,
                   (IF last'.call = "NewYuv" THEN last'.args.cfg ELSE last'.args).ssy))
  \* two accessor calls in a row add nothing
  /\ ~(last.call \in {"MutatePayload", "Clone", "Rebuild"} /\ last'.call \in {"MutatePayload", "Clone", "Rebuild"})

Resolved(call, a, w, h) ==
  IF call \in {"RgbToYuv", "LinToYuv", "XybToYuv"} THEN ResolveYuv(a, w, h)
  ELSE IF call \in {"LinToRgb", "XybToRgb"} THEN [tc |-> ResolveRgbTc(a.tc), cp |-> ResolveRgbCp(a.cp)]
  ELSE a
Step == [pre |-> img, call |-> last'.call, args |-> last'.args, rargs |-> Resolved(last'.call, last'.args, img.w, img.h),
         res |-> last'.res, post |-> img']

BInit == Init /\ hist = << >>
BNext == Next /\ hist' = Append(hist, Step)
BSpec == BInit /\ [][BNext]_bvars

\* a behaviour is complete when the call budget is used up or the client no longer holds an image
Complete(i, n) == n = MaxCalls \/ i.kind = "none"
BEmit == BFilter /\ (Complete(img', ncalls') => PrintT("BH " \o ToJson(hist')))
\* ... and is not extended any further (a client that lost its image would start a new, independent behaviour)
Live == ncalls = 0 \/ img.kind # "none"

\* the invariants of the contract hold along every behaviour (same as MC_Unspec, other bounds)
BInv == TypeOK /\ Total /\ NeverUnspecified /\ LabelsTruthful /\ OutcomeAllowed
=====================================================================================
