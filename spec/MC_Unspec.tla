--------------------------------- MODULE MC_Unspec ---------------------------------
(* Model-checking configuration for C15 (+ the C11/C13/C14 invariants that ride along): sizes around the
   thresholds of the mpv heuristic, every subset of {matrix, primaries, transfer} Unspecified, every
   matrix, histories of up to MaxCalls calls through every conversion.                            *)
EXTENDS Yuvxyb, Json

ThreshW == {1, 2, 1279, 1280, 1281}
ThreshH == {1, 2, 479, 480, 481, 487, 488, 489, 575, 576, 577, 1080}
MC_Sizes == {<<w, h>> : w \in ThreshW, h \in ThreshH}
MC_SizesSmall == {<<2, 2>>, <<2, 480>>, <<2, 576>>, <<2, 577>>, <<1280, 2>>, <<1279, 488>>, <<3, 3>>}
MC_Ss == {<<0, 0>>, <<1, 1>>}
MC_McIn == {0, 1, 2, 3, 5, 9, 12}
MC_TcIn == {2, 1, 0}
MC_CpIn == {2, 1, 5, 10}
MC_QuirksOff == [lin_to_yuv_raw_cfg |-> FALSE, rgb_to_yuv_panics_on_odd |-> FALSE, lin_to_rgb_primaries_first |-> FALSE]
MC_QuirkF3   == [lin_to_yuv_raw_cfg |-> TRUE,  rgb_to_yuv_panics_on_odd |-> FALSE, lin_to_rgb_primaries_first |-> FALSE]
MC_QuirkF4   == [lin_to_yuv_raw_cfg |-> FALSE, rgb_to_yuv_panics_on_odd |-> TRUE, lin_to_rgb_primaries_first |-> FALSE]
MC_QuirkF8   == [lin_to_yuv_raw_cfg |-> FALSE, rgb_to_yuv_panics_on_odd |-> FALSE, lin_to_rgb_primaries_first |-> TRUE]

\* the resolution is a pure function of (config, dimensions): re-resolving is idempotent and never leaves 2
ResolutionSound ==
  \A s \in MC_Sizes, mc \in McAll, tc \in MC_TcIn, cp \in MC_CpIn :
    LET c == [mc |-> mc, tc |-> tc, cp |-> cp]
        r == ResolveYuv(c, s[1], s[2])
    IN /\ r.mc # Unspec /\ r.tc # Unspec /\ r.cp # Unspec
       /\ ResolveYuv(r, s[1], s[2]) = r
       /\ (mc # Unspec => r.mc = mc) /\ (tc # Unspec => r.tc = tc) /\ (cp # Unspec => r.cp = cp)
\* C14 at design level: the pinned dispatch is symmetric (a conversion succeeds exactly when its reverse does) and the
\* single-stage pairs return the same error, over all 3276 fully specified triples
SrcImg(c, m, t, p) ==
  LET k == SrcKind(c) IN
  IF k = "yuv" THEN [NoImage EXCEPT !.kind = "yuv", !.w = 2, !.h = 2, !.st = 8, !.n = 8, !.full = 0, !.ssx = 0, !.ssy = 0, !.mc = m, !.tc = t, !.cp = p,
                                     !.emc = MatrixUsed(m, p), !.etc = t, !.ecp = p]
  ELSE IF k = "rgb" THEN [FloatImg("rgb", 2, 2) EXCEPT !.tc = t, !.cp = p, !.etc = t, !.ecp = p]
  ELSE FloatImg(k, 2, 2)
ArgsOf(c, m, t, p) ==
  IF c \in {"RgbToYuv", "LinToYuv", "XybToYuv"} THEN [mc |-> m, tc |-> t, cp |-> p, full |-> 0, n |-> 8, ssx |-> 0, ssy |-> 0, st |-> 8]
  ELSE IF c \in {"LinToRgb", "XybToRgb"} THEN [tc |-> t, cp |-> p] ELSE NoArgs
Res(c, m, t, p) == Conv(c, SrcImg(c, m, t, p), ArgsOf(c, m, t, p)).res
PinnedSymmetric ==
  \A m \in McAll \ {Unspec}, t \in TcAll \ {Unspec}, p \in CpAll \ {Unspec} :
    /\ \A c \in ConvNames : (Res(c, m, t, p) = "ok") <=> (Res(Rev(c), m, t, p) = "ok")
    /\ Res("YuvToRgb", m, t, p) = Res("RgbToYuv", m, t, p)
    /\ Res("RgbToLin", m, t, p) = Res("LinToRgb", m, t, p)   \* literally "the same error", also when both fields offend (F8)
    /\ \A c \in ConvNames : Res(c, m, t, p) \in AllowedOutcomes(c, m, t, p)
ASSUME PinnedSymmetric
ASSUME ResolutionSound
ASSUME PinnedAdmissible
=====================================================================================
