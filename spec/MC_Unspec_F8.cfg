SPECIFICATION Spec
CONSTANTS
  Sizes <- MC_SizesSmall
  McIn <- MC_McIn
  TcIn <- MC_TcIn
  CpIn <- MC_CpIn
  NIn = {8}
  SsIn <- MC_Ss
  FullIn = {0}
  StIn = {8}
  MaxCalls = 3
  FreshOnly = TRUE
  Quirks <- MC_QuirkF8
INVARIANTS TypeOK Total NeverUnspecified LabelsTruthful OutcomeAllowed
PROPERTY DimsPreserved
CHECK_DEADLOCK FALSE
