------------------------------- MODULE FxRealTest -------------------------------
(* Self-test of the FxReal kernel.  Everything is an ASSUME, evaluated by TLC at start-up; a
   failing ASSUME stops TLC with an error.  Run:  bin/tlc FxRealTest  (2-3 s).             *)
EXTENDS FxReal, FiniteSets

VARIABLE v
Init == v = 0
Next == UNCHANGED v

Close(a, b, n) == Cmp(Abs(Sub(a, b)), Units(n)) <= 0        \* |a-b| <= n * 10^-16

\* --- constants against 16-digit literals (true values in comments)
ASSUME Close(Ln2,  Ln2Series, 40)  /\ Close(Ln10, Ln10Series, 150)
ASSUME Close(Exp(One), D(2, 7182, 8182, 8459, 0452), 100)  \* 2.718281828459045235
ASSUME Close(Exp(Neg(D(5, 5000, 0, 0, 0))), D(0, 0040, 8677, 1438, 4641), 100)   \* e^-5.5
ASSUME Close(Exp(FromInt(10)), D(22026, 4657, 9480, 6716, 5170), 100000)         \* e^10 (rel 5e-16)
ASSUME Close(Ln(D(0, 0010, 0, 0, 0)), Neg(D(6, 9077, 5527, 8982, 1371)), 400)     \* ln 0.001
ASSUME Close(Ln(FromInt(1000)), D(6, 9077, 5527, 8982, 1371), 400)
ASSUME Close(Cbrt(Two), D(1, 2599, 2104, 9894, 8732), 100)                        \* 2^(1/3)
ASSUME Close(Cbrt(Neg(FromInt(27))), Neg(FromInt(3)), 400)
ASSUME Close(Sqrt(Ratio(1, 10)), D(0, 3162, 2776, 6016, 8379), 100)               \* 10^(-1/2)
ASSUME Close(Pow(Half, Ratio(24, 10)), D(0, 1894, 6457, 0813, 7998), 100)         \* 0.5^2.4
ASSUME Close(Pow(Ratio(18, 1000), Ratio(45, 100)), D(0, 1640, 1086, 8093, 8494), 100)
ASSUME Close(Pow(Ratio(9, 10), D(78, 8437, 5000, 0, 0)), D(0, 0002, 4677, 8803, 1439), 100)
ASSUME Close(Recip(D(0, 7152, 0, 0, 0)), D(1, 3982, 1029, 0827, 7405), 10)        \* 1/0.7152
ASSUME Close(Recip(FromInt(3)), D(0, 3333, 3333, 3333, 3333), 4)
ASSUME Close(Recip(D(0, 0001, 0, 0, 0)), FromInt(10000), 1000000)                 \* 1/10^-4, rel 10^-14
ASSUME Close(Recip(FromInt(9999)), D(0, 0001, 0001, 0001, 0001), 4)
ASSUME Close(Log10(FromInt(100)), Two, 400)
ASSUME Close(Log10(D(0, 0031, 6227, 7660, 1684)), Neg(D(2, 5000, 0, 0, 0)), 2000) \* log10(10^-2.5); input quantised

\* --- exact identities, signs, carries, borrows
ASSUME Add(D(0, 9999, 9999, 9999, 9999), Units(1)) = One
ASSUME Sub(One, Units(1)) = D(0, 9999, 9999, 9999, 9999)
ASSUME Sub(One, One) = Z /\ Add(One, Neg(One)) = Z /\ Sub(Z, One) = Neg(One)
ASSUME Sub(Half, One) = Neg(Half) /\ Add(Neg(Half), One) = Half
ASSUME Mul(Neg(Two), Half) = Neg(One) /\ Mul(Neg(Two), Neg(Half)) = One /\ Mul(Z, Two) = Z
ASSUME Mul(FromInt(9999), FromInt(9999)) = FromInt(99980001)
ASSUME Mul(D(0, 0, 0, 0, 1), D(0, 0, 0, 0, 1)) = Z                               \* truncation to zero is canonical
ASSUME MulInt(Ratio(1, 8), 8) = One /\ DivInt(One, 8) = D(0, 1250, 0, 0, 0)
ASSUME MulInt(D(1234, 5678, 9012, 3456, 7890), -20000) = Neg(D(24691357, 8024, 6913, 5780, 0))
ASSUME Cmp(Neg(One), Z) = -1 /\ Cmp(Z, Neg(One)) = 1 /\ Cmp(Neg(Two), Neg(One)) = -1 /\ Cmp(Two, One) = 1 /\ Cmp(Z, Z) = 0
ASSUME Clamp(Two, Z, One) = One /\ Clamp(Neg(Two), Z, One) = Z /\ Clamp(Half, Z, One) = Half
ASSUME RoundInt(D(2, 5000, 0, 0, 0)) = 3 /\ RoundInt(Neg(D(2, 5000, 0, 0, 0))) = -3 /\ RoundInt(D(2, 4999, 9999, 9999, 9999)) = 2
ASSUME FloorInt(Neg(D(2, 5000, 0, 0, 0))) = -3 /\ FloorInt(Neg(Two)) = -2 /\ FloorInt(D(2, 9999, 0, 0, 0)) = 2
ASSUME \A p \in 1..40 : \A q \in {3, 7, 219, 224, 255, 1023, 65535} : Close(MulInt(Ratio(p, q), q), FromInt(p), q)
ASSUME NormME(FromInt(99999999))[2] = 26 /\ NormME(Units(1))[2] = -53 /\ NormME(One) = <<One, 0>>
ASSUME \A j \in 0..26 : LET p == NormME(MulPow2(One, j)) IN p[2] = j /\ p[1] = One

\* --- pseudo-random operands (ZX81 LCG, period 65536), unrolled kernels against slow references
RECURSIVE Lcg(_, _)
Lcg(s, n) == IF n = 0 THEN s ELSE Lcg((s * 75 + 74) % 65537, n - 1)
Rnd(i, j) == Lcg(i * 7 + j, 3 + j) % B
\* operands up to 10^4 so that products stay in range
Op(i) == Mk((IF Rnd(i, 0) % 2 = 0 THEN 1 ELSE -1), Rnd(i, 1), Rnd(i, 2), Rnd(i, 3), Rnd(i, 4), Rnd(i, 5), 0)

ShiftDown(x, j) ==
  CASE j = 0 -> x
    [] j = 1 -> Mk(x[1], x[3], x[4], x[5], x[6], x[7], 0)
    [] j = 2 -> Mk(x[1], x[4], x[5], x[6], x[7], 0, 0)
    [] j = 3 -> Mk(x[1], x[5], x[6], x[7], 0, 0, 0)
    [] j = 4 -> Mk(x[1], x[6], x[7], 0, 0, 0, 0)
\* schoolbook reference: sum of limb partial products, each truncated separately (so <= 4 units below)
MulRef(x, y) ==
  LET P(i) == MulInt(Abs(x), y[i + 1])                  \* |x| * limb i of y
      s == Add(Add(Add(ShiftDown(P(1), 4), ShiftDown(P(2), 3)), Add(ShiftDown(P(3), 2), ShiftDown(P(4), 1))),
               Add(P(5), ShiftUp(P(6), 1)))
  IN IF x[1] * y[1] < 0 THEN Neg(s) ELSE s

ASSUME \A i \in 1..400 : \A j \in {i + 1, i + 17} :
         LET a == Op(i)  b == Op(j)
         IN /\ IsFx(a) /\ IsFx(Mul(a, b)) /\ IsFx(Add(a, b)) /\ IsFx(Sub(a, b))
            /\ Close(Mul(a, b), MulRef(a, b), 4)
            /\ Mul(a, b) = Mul(b, a)
            /\ Sub(Add(a, b), b) = a /\ Add(Sub(a, b), b) = a /\ Add(a, b) = Add(b, a)
            /\ Cmp(a, b) = -Cmp(b, a) /\ (Cmp(a, b) = 0 <=> a = b)
            /\ (Cmp(a, b) < 0 <=> Sign(Sub(a, b)) < 0)

\* division: (a*b)/b = a up to the conditioning 1/|b|
ASSUME \A i \in 1..200 :
         LET a == DivInt(Op(i), 10000)  b == Add(Abs(Op(i + 5)), One)       \* |a| < 1, 1 <= |b| < 10^4
         IN Close(Div(Mul(a, b), b), a, 80000)      \* Recip error (< 4 units) is multiplied by |a b| < 10^4
\* reciprocal on a log grid 10^-4 .. 10^4: y * (1/y) = 1 within the conditioning
ASSUME \A e \in 0..26 : \A m \in {1000, 1414, 3333, 9999} :
         LET y == MulPow2(Ratio(m, 10000 * 10), e)            \* m/10^5 * 2^e in [0.01, 6.7*10^6]
         IN Cmp(y, FromInt(10000)) > 0 \/ Close(Mul(y, Recip(y)), One, 4 * 10000)

\* exp/ln round trips
ASSUME \A n \in 1..200 : LET x == Ratio(n * 37, 1000) IN Close(Exp(Ln(x)), x, 2000)          \* x in (0, 7.4]
ASSUME \A n \in 27..60 : LET x == Ratio(n - 37, 2) IN Close(Ln(Exp(x)), x, 2000)             \* x in [-5, 11.5]
ASSUME \A n \in 1..100 : LET x == Ratio(n, 100)                                             \* Pow(x,12/5)^5 = x^12
                             p == Pow(x, Ratio(12, 5))
                             x2 == Sq(x)  x4 == Sq(x2)  x8 == Sq(x4)
                             p2 == Sq(p)  p4 == Sq(p2)
                         IN Close(Mul(p4, p), Mul(x8, x4), 300)
ASSUME \A n \in 1..50 : LET x == Ratio(n * n, 100) IN Close(Sq(Sqrt(x)), x, 2000) /\ Close(Mul(Cbrt(x), Sq(Cbrt(x))), x, 2000)

\* exact naturals
ASSUME NatMul(NatOf(16777215), NatOf(16777215)) = <<1, 6225, 4315, 4749, 281, 0, 0>>          \* 281474943156225
ASSUME NatMul(NatMul(NatOf(16777216), NatOf(16777216)), NatOf(16777216)) = NatShl(NatOf(1), 72)
ASSUME NatCmp(NatShl(NatOf(8388608), 49), NatShl(NatOf(1), 72)) = 0
ASSUME NatShl(NatOf(3), 70) = <<1, 272, 3391, 1522, 4862, 4177, 35>>                          \* 3541774862152233910272

\* 3x3 algebra: M * M^-1 = I for a colour-like matrix
M709 == <<<<D(0,2126,0,0,0), D(0,7152,0,0,0), D(0,0722,0,0,0)>>,
          <<Neg(D(0,1145,7210,0,0)), Neg(D(0,3854,2790,0,0)), Half>>,
          <<Half, Neg(D(0,4541,5291,0,0)), Neg(D(0,0458,4709,0,0))>>>>
ASSUME LET P == MatMul(M709, Inv3(M709)) IN \A i, j \in 1..3 : Close(P[i][j], Ident3[i][j], 100)
ASSUME LET P == MatMul(Inv3(M709), M709) IN \A i, j \in 1..3 : Close(P[i][j], Ident3[i][j], 100)
ASSUME Transpose(Transpose(M709)) = M709 /\ MatVec(Ident3, <<One, Two, Half>>) = <<One, Two, Half>>
=====================================================================================
