SPECIFICATION TSpec
CONSTANTS
  Sizes = {}
  McIn = {}
  TcIn = {}
  CpIn = {}
  NIn = {}
  SsIn = {}
  FullIn = {}
  StIn = {}
  MaxCalls = 0
  FreshOnly = TRUE
  Quirks <- QuirksOffTS
POSTCONDITION AllConsumed
CHECK_DEADLOCK FALSE
