---------------------------------- MODULE ResolveSym ----------------------------------
(* C15, unbounded: the resolution of Unspecified metadata (as written in Yuvxyb.tla) never yields Unspecified, is idempotent,
   keeps every specified field, and depends on nothing but (config, width, height) - for ALL widths and heights and every
   code point.  Checked symbolically by Apalache:  apalache-mc check --length=0 --inv=Sound ResolveSym.tla
   (Self-contained restatement of ResolveYuv in Apalache's typed fragment.)                       *)
EXTENDS Integers

VARIABLES
  \* @type: Int;
  w,
  \* @type: Int;
  h,
  \* @type: Int;
  mc,
  \* @type: Int;
  tc,
  \* @type: Int;
  cp

Unspec == 2
GuessMc(ww, hh)     == IF ww >= 1280 \/ hh > 576 THEN 1 ELSE IF hh = 576 THEN 5 ELSE 6
GuessCp(m, ww, hh)  == IF m \in {9, 10} THEN 9
                       ELSE IF m = 1 \/ ww >= 1280 \/ hh > 576 THEN 1
                       ELSE IF hh = 576 THEN 5 ELSE IF hh \in {480, 488} THEN 6 ELSE 1
RMc(m, ww, hh)      == IF m = Unspec THEN GuessMc(ww, hh) ELSE m
RCp(m, p, ww, hh)   == IF p = Unspec THEN GuessCp(RMc(m, ww, hh), ww, hh) ELSE p
RTc(t)              == IF t = Unspec THEN 1 ELSE t

Init == /\ w \in Nat /\ h \in Nat
        /\ mc \in 0..14 /\ tc \in 0..18 /\ cp \in (0..12) \cup {22}
Next == UNCHANGED <<w, h, mc, tc, cp>>

Sound ==
  LET m == RMc(mc, w, h)  p == RCp(mc, cp, w, h)  t == RTc(tc) IN
  /\ m # Unspec /\ p # Unspec /\ t # Unspec                       \* never Unspecified
  /\ RMc(m, w, h) = m /\ RCp(m, p, w, h) = p /\ RTc(t) = t        \* idempotent
  /\ (mc # Unspec => m = mc) /\ (cp # Unspec => p = cp) /\ (tc # Unspec => t = tc)
  /\ m \in 0..14 /\ p \in (0..12) \cup {22} /\ t \in 0..18         \* a code point of the same enumeration
  \* the documented rule, spelled out once more as implications (guards against a slip in the IF cascade above)
  /\ (mc = Unspec /\ (w >= 1280 \/ h > 576)) => m = 1
  /\ (mc = Unspec /\ w < 1280 /\ h = 576) => m = 5
  /\ (mc = Unspec /\ w < 1280 /\ h < 576) => m = 6
  /\ (cp = Unspec /\ m \in {9, 10}) => p = 9
  /\ (cp = Unspec /\ m \notin {9, 10} /\ m # 1 /\ w < 1280 /\ h = 480) => p = 6
  /\ (cp = Unspec /\ m \notin {9, 10} /\ m # 1 /\ w < 1280 /\ h = 576) => p = 5
=====================================================================================
