---------------------------------- MODULE GeomSym ----------------------------------
(* Unbounded counterpart of MC_Geom's AcceptedFramesAreSafe for ONE symbolic pixel of ONE symbolic frame:
   for ALL luma sizes, paddings (per plane), sample types and subsamplings in 0..2, a frame that the constructor
   contract accepts keeps the decode loop's accesses of pixel (x, y) inside the slices that start at the plane
   origins, and on visible samples.  Checked with Apalache (SMT, unbounded integers):
       apalache-mc check --length=0 --inv=Safe GeomSym.tla
   All state is chosen nondeterministically in Init; the invariant is evaluated on the initial states.
   (Self-contained restatement of Planes.tla in Apalache's typed fragment; no \div by variables other than 2^s.) *)
EXTENDS Integers

VARIABLES
  \* @type: Int;
  w,
  \* @type: Int;
  h,
  \* @type: Int;
  ssx,
  \* @type: Int;
  ssy,
  \* @type: Int;
  align,
  \* @type: Int;
  xpy,
  \* @type: Int;
  ypy,
  \* @type: Int;
  xpu,
  \* @type: Int;
  ypu,
  \* @type: Int;
  x,
  \* @type: Int;
  y

P2(s) == IF s = 0 THEN 1 ELSE IF s = 1 THEN 2 ELSE 4
\* x >> s and x rounded up to a multiple of a, written with \div by constants only
ShrV(v, s) == IF s = 0 THEN v ELSE IF s = 1 THEN v \div 2 ELSE v \div 4
Up(v) == IF align = 64 THEN ((v + 63) \div 64) * 64 ELSE ((v + 31) \div 32) * 32

XoY == Up(xpy)
SdY == Up(XoY + w + xpy)
LenY == SdY * (h + 2 * ypy) - (ypy * SdY + XoY)
Cw == ShrV(w, ssx)
Ch == ShrV(h, ssy)
XoU == Up(xpu)
SdU == Up(XoU + Cw + xpu)
LenU == SdU * (Ch + 2 * ypu) - (ypu * SdU + XoU)

Init ==
  /\ w \in Nat /\ h \in Nat /\ w >= 1 /\ h >= 1
  /\ ssx \in {0, 1, 2} /\ ssy \in {0, 1, 2}
  /\ align \in {32, 64}
  /\ xpy \in Nat /\ ypy \in Nat /\ xpu \in Nat /\ ypu \in Nat
  /\ w % P2(ssx) = 0 /\ h % P2(ssy) = 0          \* the frame is well formed: chroma planes are exactly (w >> ssx) x (h >> ssy)
  /\ x \in Nat /\ y \in Nat /\ x < w /\ y < h
Next == UNCHANGED <<w, h, ssx, ssy, align, xpy, ypy, xpu, ypu, x, y>>

Safe ==
  /\ y * w + x < w * h                                         \* output slot
  /\ y * SdY + x < LenY                                        \* luma access
  /\ ShrV(y, ssy) * SdU + ShrV(x, ssx) < LenU                  \* chroma access (U and V planes have the same shape; each has its own padding)
  /\ ShrV(x, ssx) < Cw /\ ShrV(y, ssy) < Ch                    \* ... and it is a visible sample
=====================================================================================
