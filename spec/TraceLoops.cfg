SPECIFICATION LSpec
POSTCONDITION AllConsumed
CHECK_DEADLOCK FALSE
