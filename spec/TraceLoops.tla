--------------------------------- MODULE TraceLoops ---------------------------------
(* STATEFUL trace validation of the two pixel loops of the YUV<->RGB stage (C11 dependency map, C07 bounds).

   The harness runs a conversion with the unsafe-site hooks in Full mode: every unchecked access is logged
   as <<site, index, slice length>> in program order.  A session is
        begin(kind, w, h, ssx, ssy, strides, plane sizes)   row* end
   where each `row` line carries the accesses of the pixels the loop visited while producing one image row,
   grouped per pixel (a group starts at the access of the pixel's own float slot: dec_out / enc_in).

   The specification of a loop is deliberately ORDER-FREE (a refactoring may visit pixels in any order, may
   write a chroma cell from any pixel of its block, once or several times).  State: which pixels were
   processed and which luma / chroma cells were touched.  One pixel step is allowed iff
     - its float slot i is an unprocessed pixel (x, y) = (i % w, i \div w),
     - its luma access decodes (through the logged stride) to exactly (x, y),
     - every chroma access it makes decodes to exactly the cell (x >> ssx, y >> ssy) of a VISIBLE sample,
     - decode: it reads U and V (exactly one access each); encode: it writes U and V together or not at all,
     - every index is below the length of its slice (C07).
   `end` is allowed iff every pixel was processed exactly once and (encode) every chroma cell was written.
   A line that no spec step explains is reported (FAIL) and the rest of that session is skipped, so one
   defect never hides the following sessions.                                                     *)
EXTENDS Enums, Sequences, FiniteSets, TLC, Json, IOUtils

Rec == ndJsonDeserialize(IOEnv.TRACE)
N   == Len(Rec)

VARIABLES l,        \* next line
          cur,      \* the open session (the begin record) or NoSession
          pix,      \* pixels processed so far
          ucells, vcells,   \* chroma cells written (encode) / read (decode)
          skipping  \* TRUE after a rejected line, until the next begin
lvars == <<l, cur, pix, ucells, vcells, skipping>>
NoSession == [kind |-> "none"]

Site(a) == a[1]
Idx(a)  == a[2]
SLen(a) == a[3]
\* an access into plane k (1 = Y, 2 = U, 3 = V) decoded through the logged stride
Col(a, k) == Idx(a) % cur.strides[k]
Row(a, k) == Idx(a) \div cur.strides[k]
InPlane(a, k) == cur.strides[k] > 0 /\ Col(a, k) < cur.pdims[k][1] /\ Row(a, k) < cur.pdims[k][2]

Prefix == IF cur.kind = "dec" THEN "dec_" ELSE "enc_"
GroupOk(g) ==
  LET slot == g[1]
      i    == Idx(slot)
      x    == i % cur.w
      y    == i \div cur.w
      ys   == SelectSeq(g, LAMBDA a : Site(a) = Prefix \o "y")
      us   == SelectSeq(g, LAMBDA a : Site(a) = Prefix \o "u")
      vs   == SelectSeq(g, LAMBDA a : Site(a) = Prefix \o "v")
  IN /\ Site(slot) = (IF cur.kind = "dec" THEN "dec_out" ELSE "enc_in")
     /\ \A k \in 1..Len(g) : Idx(g[k]) < SLen(g[k])                                         \* C07
     /\ i < cur.w * cur.h /\ SLen(slot) = cur.w * cur.h
     /\ <<x, y>> \notin pix                                                                  \* each pixel once
     /\ Len(ys) = 1 /\ InPlane(ys[1], 1) /\ Col(ys[1], 1) = x /\ Row(ys[1], 1) = y          \* own luma sample
     /\ Len(us) = Len(vs) /\ Len(us) <= 1
     /\ (cur.kind = "dec" => Len(us) = 1)
     /\ \A a \in {us[k] : k \in 1..Len(us)} : InPlane(a, 2) /\ Col(a, 2) = Shr(x, cur.ssx) /\ Row(a, 2) = Shr(y, cur.ssy)
     /\ \A a \in {vs[k] : k \in 1..Len(vs)} : InPlane(a, 3) /\ Col(a, 3) = Shr(x, cur.ssx) /\ Row(a, 3) = Shr(y, cur.ssy)
     /\ Len(g) = 2 + Len(us) + Len(vs)
PixOf(g)  == <<Idx(g[1]) % cur.w, Idx(g[1]) \div cur.w>>
HasChroma(g) == \E k \in 1..Len(g) : Site(g[k]) = Prefix \o "u"
CellOf(g) == <<Shr(PixOf(g)[1], cur.ssx), Shr(PixOf(g)[2], cur.ssy)>>

\* all groups of one row line are accepted one after the other (pix grows inside the line: checked pairwise distinct)
\* a C07 run judges the bounds only (which sample a pixel may read is C11's business); a C11 run judges everything
BoundsOnly(e) == e.p = "C07"
RowOk(e) == IF BoundsOnly(e)
            THEN \A k \in 1..Len(e.groups) : \A a \in 1..Len(e.groups[k]) : Idx(e.groups[k][a]) < SLen(e.groups[k][a])
            ELSE /\ \A k \in 1..Len(e.groups) : GroupOk(e.groups[k])
                 /\ \A j, k \in 1..Len(e.groups) : j # k => PixOf(e.groups[j]) # PixOf(e.groups[k])

Begin == /\ l <= N /\ Rec[l].ev = "loop_begin"
         /\ cur' = Rec[l] /\ pix' = {} /\ ucells' = {} /\ vcells' = {} /\ skipping' = FALSE /\ l' = l + 1
Groups(e) == {e.groups[k] : k \in 1..Len(e.groups)}
Row_ ==  /\ l <= N /\ Rec[l].ev = "row" /\ ~skipping /\ cur.kind # "none" /\ RowOk(Rec[l])
         /\ pix' = pix \cup {PixOf(g) : g \in Groups(Rec[l])}
         /\ ucells' = ucells \cup {CellOf(g) : g \in {g \in Groups(Rec[l]) : HasChroma(g)}}
         /\ vcells' = ucells'
         /\ UNCHANGED <<cur, skipping>> /\ l' = l + 1
AllPixels == {<<x, y>> : x \in 0..(cur.w - 1), y \in 0..(cur.h - 1)}
AllCells  == {<<x, y>> : x \in 0..(cur.pdims[2][1] - 1), y \in 0..(cur.pdims[2][2] - 1)}
\* a conversion that reported no access at all is unobserved (e.g. a refactoring to safe iterators removed the
\* unsafe sites together with their hooks): nothing to judge, the bit-level relations of C11 still apply elsewhere
Unobserved == pix = {} /\ Rec[l].res = "ok"
EndObserved ==
         /\ cur.kind # "none"
         /\ Rec[l].res = "ok"
         /\ pix = AllPixels
         /\ cur.pdims[1] = <<cur.w, cur.h>>
         /\ cur.pdims[2] = <<Shr(cur.w, cur.ssx), Shr(cur.h, cur.ssy)>> /\ cur.pdims[3] = cur.pdims[2]
         /\ ucells = AllCells                        \* encode: every chroma cell written; decode: every cell that has a pixel is read
EndOk == BoundsOnly(Rec[l]) \/ Unobserved \/ EndObserved
End_ ==  /\ l <= N /\ Rec[l].ev = "loop_end" /\ ~skipping /\ EndOk
         /\ cur' = NoSession /\ UNCHANGED <<pix, ucells, vcells, skipping>> /\ l' = l + 1
\* a line no step explains: report it, skip to the next begin
Reject == /\ l <= N /\ ~skipping /\ Rec[l].ev \in {"row", "loop_end"}
          /\ ~(IF Rec[l].ev = "row" THEN cur.kind # "none" /\ RowOk(Rec[l]) ELSE EndOk)
          /\ PrintT("FAIL " \o ToJson(<<Rec[l].id, Rec[l].p, <<(IF BoundsOnly(Rec[l]) THEN "C07.loop-access-out-of-bounds" ELSE "C11.loop-step-not-allowed-by-spec"),
                                                             Rec[l].ev, cur.kind, Rec[l].sid>>>>))
          /\ skipping' = TRUE /\ UNCHANGED <<cur, pix, ucells, vcells>> /\ l' = l + 1
Skip ==   /\ l <= N /\ skipping /\ Rec[l].ev # "loop_begin"
          /\ UNCHANGED <<cur, pix, ucells, vcells, skipping>> /\ l' = l + 1

LInit == l = 1 /\ cur = NoSession /\ pix = {} /\ ucells = {} /\ vcells = {} /\ skipping = FALSE
LNext == Begin \/ Row_ \/ End_ \/ Reject \/ Skip
LSpec == LInit /\ [][LNext]_lvars
AllConsumed ==
  LET d == TLCGet("stats").diameter IN
  IF d - 1 = N THEN PrintT("DONE " \o ToString(N)) ELSE PrintT("STUCK " \o ToString(d - 1) \o " " \o ToString(N)) /\ FALSE
=====================================================================================
