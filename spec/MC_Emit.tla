---------------------------------- MODULE MC_Emit ----------------------------------
(* Spec -> implementation (DESIGN.md 5.4): TLC explores the behaviours of Yuvxyb!Spec of length <= 2
   (constructor ; conversion) and prints every transition once as a JSON test case.  The harness rebuilds
   the pre-state through the public API, performs the call on the real library and logs what it observed;
   TraceSession.tla then judges the observation against the contract.

   ACTION_CONSTRAINT Emit prunes cross products that add no coverage (Filter) and prints the rest.  *)
EXTENDS Yuvxyb, Json

\* both dimensions at a threshold at once (HD width with an SD height): only constructors and the matrix-only encode run
\* on these (JointFilter), the per-pixel curve stages would make 700k-pixel frames too slow for every config
JointSizes == {<<1280, 576>>, <<1280, 480>>, <<1280, 488>>, <<1281, 577>>}
NewNames2 == {"NewYuv", "NewRgb", "NewLin", "NewXyb", "NewHsl"}
ThreshW == {1, 2, 1279, 1280, 1281, 1920, 3840, 4096}
ThreshH == {1, 2, 479, 480, 481, 484, 487, 488, 489, 575, 576, 577, 720, 1080, 2160}
\* thresholds are crossed one dimension at a time (cheap frames) plus a few joint sizes
UnspecSizes == {<<w, h>> : w \in ThreshW, h \in {1, 2}} \cup {<<w, h>> : w \in {1, 2}, h \in ThreshH}
               \cup {<<1279, 576>>, <<1279, 480>>, <<1080, 1920>>} \cup JointSizes
UnspecSizesQuick == {<<2, 2>>, <<1279, 2>>, <<1280, 2>>, <<1281, 1>>, <<2, 479>>, <<2, 480>>, <<1, 481>>, <<2, 484>>, <<1, 487>>, <<2, 488>>, <<1, 489>>,
                     <<2, 576>>, <<1, 575>>, <<2, 577>>, <<2, 1080>>, <<3840, 2>>, <<2, 2160>>, <<1080, 1920>>} \cup JointSizes
SupportSizes == {<<2, 2>>}
Ss00 == {<<0, 0>>}
McNoUnspec == McAll \ {Unspec}
TcNoUnspec == TcAll \ {Unspec}
CpNoUnspec == CpAll \ {Unspec}

QuirksOff == [lin_to_yuv_raw_cfg |-> FALSE, rgb_to_yuv_panics_on_odd |-> FALSE, lin_to_rgb_primaries_first |-> FALSE]

\* RGB->YUV only needs one RGB label per target config (the matrix stage ignores them), and the float
\* kinds need no second constructor variant
JointFilter == (img.kind # "none" /\ <<img.w, img.h>> \in JointSizes) => last'.call = "RgbToYuv"
\* a portrait picture of more than two million pixels whose WIDTH is below the HD threshold: encoders that split a large
\* picture into bands must resolve Unspecified metadata from the picture, not from a band.  Only the composite encodes
\* of float images with an Unspecified matrix run on it (2 Mpx through the curve stages is slow).
Portrait == <<1080, 1920>>
PortraitFilter ==
  /\ (last'.call \in NewNames2 /\ <<last'.args.w, last'.args.h>> = Portrait) => last'.call \in {"NewLin", "NewXyb"}
  /\ (img.kind # "none" /\ <<img.w, img.h>> = Portrait) => (last'.call \in {"LinToYuv", "XybToYuv"} /\ last'.args.mc = Unspec /\ last'.args.n = 10)
\* 16-bit configurations (a constructor that treats depth 16 specially must still resolve the metadata) on a few sizes only
DeepFilter ==
  LET n == IF last'.call = "NewYuv" THEN last'.args.cfg.n ELSE IF last'.call \in {"RgbToYuv", "LinToYuv", "XybToYuv"} THEN last'.args.n ELSE 8
      sz == IF last'.call \in NewNames2 THEN <<last'.args.w, last'.args.h>> ELSE <<img.w, img.h>>
  IN n = 16 => sz \in {<<2, 2>>, <<2, 576>>}
Filter ==
  /\ ~(last'.call \in {"MutatePayload", "Clone", "IntoData", "Rebuild"})        \* accessor actions are bound by the "acc" family, not replayed here
  /\ JointFilter /\ PortraitFilter /\ DeepFilter
  /\ (last'.call = "RgbToYuv" => img.tc = ResolveRgbTc(last'.args.tc) /\ img.cp = ResolveRgbCp(last'.args.cp))
  /\ (last'.call \in {"NewYuv", "RgbToYuv", "LinToYuv", "XybToYuv"} =>
         Dividable(IF last'.call = "NewYuv" THEN last'.args.w ELSE img.w,
                   IF last'.call = "NewYuv" THEN last'.args.h ELSE img.h,
                   (IF last'.call = "NewYuv" THEN last'.args.cfg ELSE last'.args).ssx,
                   (IF last'.call = "NewYuv" THEN last'.args.cfg ELSE last'.args).ssy))
Resolved(call, a, w, h) ==
  IF call \in {"RgbToYuv", "LinToYuv", "XybToYuv"} THEN ResolveYuv(a, w, h)
  ELSE IF call \in {"LinToRgb", "XybToRgb"} THEN [tc |-> ResolveRgbTc(a.tc), cp |-> ResolveRgbCp(a.cp)]
  ELSE a
ASSUME PinnedAdmissible
Emit == Filter /\ PrintT("TC " \o ToJson([pre |-> img, call |-> last'.call, args |-> last'.args,
                                           rargs |-> Resolved(last'.call, last'.args, img.w, img.h),
                                           res |-> last'.res, post |-> img']))
=====================================================================================
