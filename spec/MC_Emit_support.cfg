SPECIFICATION Spec
CONSTANTS
  Sizes <- SupportSizes
  McIn <- McNoUnspec
  TcIn <- TcNoUnspec
  CpIn <- CpNoUnspec
  NIn = {8}
  SsIn <- Ss00
  FullIn = {0}
  StIn = {8}
  MaxCalls = 2
  FreshOnly = TRUE
  Quirks <- QuirksOff
ACTION_CONSTRAINT Emit
CHECK_DEADLOCK FALSE
