---------------------------------- MODULE Planes ----------------------------------
(* Frame geometry (C07, C11, C12): what a caller can build with v_frame's Plane::new, what the YUV
   constructor must accept, and where the two pixel loops of the YUV<->RGB stage touch memory.

   A plane as the caller builds it:  g = [w, h, xdec, ydec, xpad, ypad]  (all chosen freely and
   independently per plane).  A frame: f = [st, p] with st in {8,16} the sample type and p = <<Y, U, V>>.
   A config (the part that matters here): c = [ssx, ssy, n].

   PlaneAlloc is a model of v_frame 0.3.9's allocation (stride aligned to 64 bytes, origin after the
   padding).  It is code-shaped: the conformance check compares it with the observed slice lengths and
   reports a disagreement as SPEC-DRIFT only.  The property-level statements are WellFormed (C12),
   InBounds on the observed (index, length) pairs (C07) and CoversLuma (C07/C11).               *)
EXTENDS Enums, Sequences, FiniteSets

AlignUp(x, a) == ((x + a - 1) \div a) * a
SamplesPerAlign(st) == IF st = 8 THEN 64 ELSE 32
PlaneAlloc(g, st) ==
  LET a  == SamplesPerAlign(st)
      xo == AlignUp(g.xpad, a)
      sd == AlignUp(xo + g.w + g.xpad, a)
  IN [xorigin |-> xo, yorigin |-> g.ypad, stride |-> sd, alloc_h |-> g.h + 2 * g.ypad]
\* length of the slice that starts at the plane's origin (what data_origin() returns)
OriginLen(g, st) == LET A == PlaneAlloc(g, st) IN A.stride * A.alloc_h - (A.yorigin * A.stride + A.xorigin)

\* C12: the frames the YUV constructor must accept (size part; the sample-range part is DataOk)
DecimationOk(f, c) == \A k \in {2, 3} : f.p[k].xdec = c.ssx /\ f.p[k].ydec = c.ssy
LumaWidthOk(f, c)  == f.p[1].w % Pow2(c.ssx) = 0
LumaHeightOk(f, c) == f.p[1].h % Pow2(c.ssy) = 0
ChromaSizeOk(f, c) == \A k \in {2, 3} : f.p[k].w = Shr(f.p[1].w, c.ssx) /\ f.p[k].h = Shr(f.p[1].h, c.ssy)
WellFormedSize(f, c) == DecimationOk(f, c) /\ LumaWidthOk(f, c) /\ LumaHeightOk(f, c) /\ ChromaSizeOk(f, c)
\* the error variants whose documented condition holds (precedence left free)
SizeErrors(f, c) ==
  (IF ~DecimationOk(f, c) \/ ~ChromaSizeOk(f, c) THEN {"SubsamplingMismatch"} ELSE {})
  \cup (IF ~LumaWidthOk(f, c) THEN {"InvalidLumaWidth"} ELSE {})
  \cup (IF ~LumaHeightOk(f, c) THEN {"InvalidLumaHeight"} ELSE {})

\* C07 / C11: the chroma planes cover the luma plane at the declared subsampling
CoversLuma(f, c) == \A k \in {2, 3} : /\ f.p[1].w > 0 => Shr(f.p[1].w - 1, c.ssx) < f.p[k].w
                                      /\ f.p[1].h > 0 => Shr(f.p[1].h - 1, c.ssy) < f.p[k].h

\* the unchecked accesses of one iteration (x, y) of the decode loop: <<site, index, slice length>>
DecAccess(f, c, x, y) ==
  LET S(k) == PlaneAlloc(f.p[k], f.st).stride IN
  << <<"dec_out", y * f.p[1].w + x, f.p[1].w * f.p[1].h>>,
     <<"dec_y", y * S(1) + x, OriginLen(f.p[1], f.st)>>,
     <<"dec_u", Shr(y, c.ssy) * S(2) + Shr(x, c.ssx), OriginLen(f.p[2], f.st)>>,
     <<"dec_v", Shr(y, c.ssy) * S(3) + Shr(x, c.ssx), OriginLen(f.p[3], f.st)>> >>
InBounds(a) == a[2] < a[3]
\* stronger than in-bounds: the sample read is a VISIBLE sample of its plane (not padding)
ReadsVisible(f, c, x, y) == \A k \in {2, 3} : Shr(x, c.ssx) < f.p[k].w /\ Shr(y, c.ssy) < f.p[k].h
Pixels(f) == {<<x, y>> : x \in 0..(f.p[1].w - 1), y \in 0..(f.p[1].h - 1)}
Safe(f, c) == \A q \in Pixels(f) : /\ \A i \in 1..4 : InBounds(DecAccess(f, c, q[1], q[2])[i])
                                   /\ ReadsVisible(f, c, q[1], q[2])
\* the largest index per site (the loop is monotone in x and y), used to compare with hook summaries
MaxIdx(f, c) == IF f.p[1].w = 0 \/ f.p[1].h = 0 THEN << >> ELSE DecAccess(f, c, f.p[1].w - 1, f.p[1].h - 1)
=====================================================================================
