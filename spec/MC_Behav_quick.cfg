SPECIFICATION BSpec
CONSTANTS
  Sizes <- BehavSizes
  McIn = {1, 2, 6, 9}
  TcIn = {1, 2, 13, 16}
  CpIn = {1, 2, 9}
  NIn = {8, 10}
  SsIn <- BSs
  FullIn = {0, 1}
  StIn = {8, 16}
  MaxCalls = 4
  FreshOnly = TRUE
  Quirks <- BQuirksOff
INVARIANT BInv
ACTION_CONSTRAINT BEmit
CONSTRAINT Live
CHECK_DEADLOCK FALSE
