------------------------------ MODULE ColourScience ------------------------------
(* The standards behind yuvxyb, as exact-arithmetic definitions over FxReal.

   Nothing here is transcribed from the Rust sources.  The constants are the ones printed in the
   property statements and in the standards (ITU-T H.273 / H.265 Annex E, ITU-R BT.709/BT.1886/
   BT.2100, SMPTE ST 2084, ARIB STD-B67, IEC 61966-2-1/-2-4, CIE 15, libjxl's opsin transform), so a
   mistyped constant in the code disagrees with this module instead of being mirrored by it.

   Enumerations are H.273 code points (integers):
     MatrixCoefficients  0 Identity 1 BT709 2 Unspecified 3 Reserved 4 BT470M(FCC) 5 BT470BG 6 ST170M
                         7 ST240M 8 YCgCo 9 BT2020NCL 10 BT2020CL 11 ST2085 12 ChromaNCL 13 ChromaCL 14 ICtCp
     ColourPrimaries     0 Reserved0 1 BT709 2 Unspecified 3 Reserved 4 BT470M 5 BT470BG 6 ST170M 7 ST240M
                         8 Film 9 BT2020 10 ST428 11 P3DCI 12 P3Display 22 Tech3213(EBU)
     TransferCharacteristics 0 Reserved0 1 BT1886(BT709) 2 Unspecified 3 Reserved 4 BT470M 5 BT470BG
                         6 ST170M 7 ST240M 8 Linear 9 Log100 10 Log316 11 XVYCC 12 BT1361E 13 SRGB
                         14 BT2020Ten 15 BT2020Twelve 16 PQ 17 ST428 18 HLG                          *)
EXTENDS FxReal, Enums

-------------------------------------------------------------------------------------
\* H.273 Table 4: luma coefficients Kr, Kb
Kr(mc) == CASE mc = 1 -> D(0, 2126, 0, 0, 0)
            [] mc = 4 -> D(0, 3000, 0, 0, 0)
            [] mc \in {5, 6} -> D(0, 2990, 0, 0, 0)
            [] mc = 7 -> D(0, 2120, 0, 0, 0)
            [] mc = 9 -> D(0, 2627, 0, 0, 0)
Kb(mc) == CASE mc = 1 -> D(0, 0722, 0, 0, 0)
            [] mc = 4 -> D(0, 1100, 0, 0, 0)
            [] mc \in {5, 6} -> D(0, 1140, 0, 0, 0)
            [] mc = 7 -> D(0, 0870, 0, 0, 0)
            [] mc = 9 -> D(0, 0593, 0, 0, 0)

\* per-matrix derived constants, computed once (zero-arity function => cached by TLC)
KTab == [mc \in Std7 \ {8} |->
           LET kr == Kr(mc)  kb == Kb(mc)  kg == Sub(Sub(One, kr), kb)
           IN [kr |-> kr, kb |-> kb, kg |-> kg,
               kginv |-> Recip(kg),
               cr2 |-> MulInt(Sub(One, kr), 2),            \* 2(1-Kr)
               cb2 |-> MulInt(Sub(One, kb), 2),            \* 2(1-Kb)
               cr2inv |-> Recip(MulInt(Sub(One, kr), 2)),
               cb2inv |-> Recip(MulInt(Sub(One, kb), 2))]]

\* --- quantisation ranges (H.273 eq. 10-19 form)
BlackY(full, n)  == IF full THEN 0 ELSE 16 * Pow2(n - 8)
ScaleY(full, n)  == IF full THEN Pow2(n) - 1 ELSE 219 * Pow2(n - 8)
MidC(n)          == Pow2(n - 1)
ScaleC(full, n)  == IF full THEN Pow2(n) - 1 ELSE 224 * Pow2(n - 8)
WhiteY(full, n)  == IF full THEN Pow2(n) - 1 ELSE 235 * Pow2(n - 8)
MaxCode(n)       == Pow2(n) - 1
MHalf == Neg(Half)

\* code -> normalised value, clamped to the nominal range
NormY(full, n, c) == Clamp(Ratio(c - BlackY(full, n), ScaleY(full, n)), Z, One)
NormC(full, n, c) == Clamp(Ratio(c - MidC(n), ScaleC(full, n)), MHalf, Half)

\* C01: the H.273 decode of one code triple  <<Y, U, V>>  ->  <<R, G, B>>
DecodeRef(mc, full, n, p) ==
  LET y  == NormY(full, n, p[1])
      cb == NormC(full, n, p[2])
      cr == NormC(full, n, p[3])
  IN IF mc = 8                               \* YCgCo: Cg is carried in the Cb plane, Co in the Cr plane
       THEN LET t == Sub(y, cb) IN <<Add(t, cr), Add(y, cb), Sub(t, cr)>>
       ELSE LET k == KTab[mc]
                r == Add(y, Mul(k.cr2, cr))
                b == Add(y, Mul(k.cb2, cb))
                g == Mul(Sub(Sub(y, Mul(k.kr, r)), Mul(k.kb, b)), k.kginv)
            IN <<r, g, b>>

\* C02: real-valued H.273 quantisation of one R'G'B' pixel  ->  <<Y, U, V>> ideal (unrounded, unclamped)
EncodeIdeal(mc, full, n, q) ==
  LET ypbpr == IF mc = 8
                 THEN <<Add3(DivInt(q[1], 4), DivInt(q[2], 2), DivInt(q[3], 4)),
                        Sub(DivInt(q[2], 2), Add(DivInt(q[1], 4), DivInt(q[3], 4))),
                        Sub(DivInt(q[1], 2), DivInt(q[3], 2))>>
                 ELSE LET k == KTab[mc]
                          y == Add3(Mul(k.kr, q[1]), Mul(k.kg, q[2]), Mul(k.kb, q[3]))
                      IN <<y, Mul(Sub(q[3], y), k.cb2inv), Mul(Sub(q[1], y), k.cr2inv)>>
  IN <<Add(MulInt(ypbpr[1], ScaleY(full, n)), FromInt(BlackY(full, n))),
       Add(MulInt(ypbpr[2], ScaleC(full, n)), FromInt(MidC(n))),
       Add(MulInt(ypbpr[3], ScaleC(full, n)), FromInt(MidC(n)))>>

\* C08: legal range of a plane's code
LegalLo(full, n, plane) == IF full THEN 0 ELSE 16 * Pow2(n - 8)
LegalHi(full, n, plane) == IF full THEN MaxCode(n) ELSE (IF plane = 1 THEN 235 ELSE 240) * Pow2(n - 8)
ClampLegal(full, n, plane, c) ==
  IF c < LegalLo(full, n, plane) THEN LegalLo(full, n, plane)
  ELSE IF c > LegalHi(full, n, plane) THEN LegalHi(full, n, plane) ELSE c
RoundTripOk(full, n, plane, in, out) ==
  \/ out = ClampLegal(full, n, plane, in)
  \/ (full /\ plane # 1 /\ in = 0 /\ out = 1)


\* tolerances that the properties state (names say which property)
Tol01     == D(0, 0, 0300, 0, 0)         \* 3e-6
TolGreySp == D(0, 0, 0050, 0, 0)         \* 5e-7
Tol1em6   == D(0, 0, 0100, 0, 0)         \* 1e-6
Tol1em5   == D(0, 0, 1000, 0, 0)         \* 1e-5
Tol1em4   == D(0, 1, 0, 0, 0)            \* 1e-4
Tol2em6   == D(0, 0, 0200, 0, 0)         \* 2e-6
Tol5em5   == D(0, 0, 5000, 0, 0)         \* 5e-5
TolCurve  == D(0, 2, 5000, 0, 0)         \* 2.5e-4
TolPQ     == D(0, 5, 7000, 0, 0)         \* 5.7e-4
TolExact  == D(0, 0, 5000, 0, 0)         \* 5e-5  (C20, fastmath off)
\* C02: 0.5 + 1e-6 * 2^n
Tol02(n)  == Add(Half, MulInt(Tol1em6, Pow2(n)))

-------------------------------------------------------------------------------------
(* Transfer characteristics (C03, C10, C16).  dir = "lin": gamma-encoded -> linear light;
   dir = "gam": linear light -> gamma-encoded.  Domain x in [0,1].

   Where a standard circulates in two constant variants the curve is defined as the SET of variants
   (a sequence of candidate values): an observation is accepted when it is within budget of any of
   them.  The variants differ from one another by < 4*10^-6, two orders below the budgets, so this
   only removes a false-alarm source (DESIGN.md C03).                                           *)
P24    == Ratio(24, 10)
P24i   == Recip(Ratio(24, 10))
P22    == Ratio(22, 10)
P22i   == Recip(Ratio(22, 10))
P28    == Ratio(28, 10)
P28i   == Recip(Ratio(28, 10))
P045   == Ratio(45, 100)
P045i  == Recip(Ratio(45, 100))

\* BT.709 OETF and inverse, parameterised by (alpha, beta): V = alpha L^0.45 - (alpha-1) for L >= beta, 4.5 L below
B709Std == <<D(1, 0990, 0, 0, 0), D(0, 0180, 0, 0, 0)>>                     \* 1.099, 0.018
B709Ext == <<D(1, 0992, 9682, 6809, 4400), D(0, 0180, 5396, 8510, 8070)>>   \* 1.09929682680944, 0.018053968510807
G709(v, L)    == IF Cmp(L, v[2]) < 0 THEN MulInt(DivInt(L, 2), 9)
                 ELSE Sub(Mul(v[1], Pow(L, P045)), Sub(v[1], One))
G709Inv(v, V) == IF Cmp(V, MulInt(DivInt(v[2], 2), 9)) < 0 THEN DivInt(MulInt(V, 2), 9)
                 ELSE Pow(Mul(Add(V, Sub(v[1], One)), Recip(v[1])), P045i)

\* sRGB (IEC 61966-2-1) and the continuity-adjusted constants
K1292   == D(12, 9200, 0, 0, 0)
SrgbStd == [a |-> D(1, 0550, 0, 0, 0), lin |-> D(0, 0031, 3080, 0, 0), gam |-> D(0, 0404, 5000, 0, 0)]
SrgbAdj == LET a == D(1, 0550, 1071, 8000, 0)  b == D(0, 0030, 4128, 2560, 1280)
           IN [a |-> a, lin |-> b, gam |-> Mul(b, K1292)]
SrgbToLin(v, x) == IF Cmp(x, v.gam) < 0 THEN Mul(x, Recip(K1292))
                   ELSE Pow(Mul(Add(x, Sub(v.a, One)), Recip(v.a)), P24)
SrgbToGam(v, x) == IF Cmp(x, v.lin) < 0 THEN Mul(x, K1292)
                   ELSE Sub(Mul(v.a, Pow(x, P24i)), Sub(v.a, One))

\* SMPTE ST 2084 (PQ) constants, exact dyadic rationals
PQm1 == DivInt(FromInt(2610), 16384)            \* 0.1593017578125
PQm2 == DivInt(FromInt(2523 * 32), 1024)        \* 78.84375
PQc1 == DivInt(FromInt(3424), 4096)             \* 0.8359375
PQc2 == DivInt(FromInt(2413), 128)              \* 18.8515625
PQc3 == DivInt(FromInt(2392), 128)              \* 18.6875
PQm1i == Recip(PQm1)
PQm2i == Recip(PQm2)
Ln100 == MulInt(Ln10, 2)
\* BT.2100 reference PQ OOTF scale in two circulating values (BT.2100: 59.5208; BT.2390 continuity form: 59.4908)
PQScales == <<D(59, 5208, 0, 0, 0), D(59, 4908, 0, 0, 0)>>
\* inverse EOTF applied to Y given as ln(Y) (avoids representing tiny Y):  ((c1 + c2 Y^m1)/(1 + c3 Y^m1))^m2
PQInvEotfLn(lnY) == LET ym == Exp(Mul(PQm1, lnY))
                    IN Pow(Mul(Add(PQc1, Mul(PQc2, ym)), Recip(Add(One, Mul(PQc3, ym)))), PQm2)
\* scene linear E in [0,1] -> PQ signal:  InvEOTF(G1886(G709(s E)) / 100)
PQToGam(v709, s, E) ==
  LET g == G709(v709, Mul(s, E))
  IN IF g[1] <= 0 THEN Pow(PQc1, PQm2)           \* Y = 0:  c1^m2 = 7.3*10^-7 (display black of the PQ signal)
     ELSE PQInvEotfLn(Sub(Mul(P24, Ln(g)), Ln100))
\* PQ signal E' in [0,1] -> scene linear:  G709^-1((100 Y)^(1/2.4)) / s,  Y = EOTF(E')
PQToLin(v709, s, Ep) ==
  IF Ep[1] <= 0 THEN Z ELSE
  LET xp  == Pow(Ep, PQm2i)
      num == Sub(xp, PQc1)
  IN IF num[1] <= 0 THEN Z
     ELSE LET lnY == Mul(PQm1i, Ln(Mul(num, Recip(Sub(PQc2, Mul(PQc3, xp))))))
              d   == Exp(Mul(P24i, Add(lnY, Ln100)))                 \* (100 Y)^(1/2.4)
          IN Mul(G709Inv(v709, d), Recip(s))

\* ARIB STD-B67 / BT.2100 HLG
HLGa == D(0, 1788, 3277, 0, 0)
HLGb == D(0, 2846, 6892, 0, 0)
HLGc == D(0, 5599, 1073, 0, 0)
HLGToGam(E)  == IF Cmp(E, Ratio(1, 12)) <= 0 THEN Sqrt(MulInt(E, 3))
                ELSE Add(Mul(HLGa, Ln(Sub(MulInt(E, 12), HLGb))), HLGc)
HLGToLin(Ep) == IF Cmp(Ep, Half) <= 0 THEN DivInt(Sq(Ep), 3)
                ELSE DivInt(Add(Exp(Mul(Sub(Ep, HLGc), Recip(HLGa))), HLGb), 12)

CurveClass(tc) == IF tc \in {1, 6, 7, 14, 15} THEN 1 ELSE tc
G24Aliases == <<1, 6, 7, 14, 15>>
LogCurves == {9, 10}
Log316Cut == D(0, 0031, 6227, 7660, 1684)        \* 10^-2.5

\* candidate reference values (a sequence) for curve tc, direction dir, input x in [0,1]
CurveRef(tc, dir, x) ==
  LET c == CurveClass(tc) IN
  CASE c = 1  -> <<IF dir = "lin" THEN Pow(x, P24) ELSE Pow(x, P24i)>>
    [] c = 11 -> <<IF dir = "lin" THEN Pow(x, P24) ELSE Pow(x, P24i)>>     \* xvYCC inside [0,1]
    [] c = 4  -> <<IF dir = "lin" THEN Pow(x, P22) ELSE Pow(x, P22i)>>
    [] c = 5  -> <<IF dir = "lin" THEN Pow(x, P28) ELSE Pow(x, P28i)>>
    [] c = 8  -> <<x>>
    [] c = 13 -> IF dir = "lin" THEN <<SrgbToLin(SrgbStd, x), SrgbToLin(SrgbAdj, x)>>
                               ELSE <<SrgbToGam(SrgbStd, x), SrgbToGam(SrgbAdj, x)>>
    [] c = 9  -> <<IF dir = "lin" THEN Exp(Mul(Ln10, MulInt(Sub(x, One), 2)))
                   ELSE IF Cmp(x, Ratio(1, 100)) < 0 THEN Z ELSE Add(One, DivInt(Log10(x), 2))>>
    [] c = 10 -> <<IF dir = "lin" THEN Exp(Mul(Ln10, DivInt(MulInt(Sub(x, One), 5), 2)))
                   ELSE IF Cmp(x, Log316Cut) < 0 THEN Z ELSE Add(One, DivInt(MulInt(Log10(x), 2), 5))>>
    [] c = 16 -> IF dir = "lin"
                 THEN <<PQToLin(B709Std, PQScales[1], x), PQToLin(B709Ext, PQScales[2], x),
                        PQToLin(B709Ext, PQScales[1], x), PQToLin(B709Std, PQScales[2], x)>>
                 ELSE <<PQToGam(B709Std, PQScales[1], x), PQToGam(B709Ext, PQScales[2], x),
                        PQToGam(B709Ext, PQScales[1], x), PQToGam(B709Std, PQScales[2], x)>>
    [] c = 18 -> <<IF dir = "lin" THEN HLGToLin(x) ELSE HLGToGam(x)>>

\* C03 / C10 budgets
CurveTol(tc, dir) == IF tc = 16 /\ dir = "gam" THEN TolPQ ELSE TolCurve
RtTol(tc)         == IF tc = 16 THEN TolPQ ELSE TolCurve
\* strict "<" of the statements is checked as "<= tol + SpecEps": the harmless direction
NearAny(y, refs, tol) == \E k \in 1..Len(refs) : Near(y, refs[k], tol)

-------------------------------------------------------------------------------------
(* JPEG XL opsin transform (C04, C05, C16): constants as printed in the property / libjxl. *)
OpsinA == <<<<D(0, 3000, 0, 0, 0), D(0, 6220, 0, 0, 0), D(0, 0780, 0, 0, 0)>>,
            <<D(0, 2300, 0, 0, 0), D(0, 6920, 0, 0, 0), D(0, 0780, 0, 0, 0)>>,
            <<D(0, 2434, 2268, 9245, 4782), D(0, 2047, 6744, 4244, 9682), D(0, 5518, 0986, 6509, 5536)>>>>
OpsinBias == D(0, 0037, 9307, 3255, 2754)            \* 0.0037930732552754493
CbrtBias  == Cbrt(OpsinBias)
OpsinMix(p) == <<Add(Dot3(OpsinA[1], p), OpsinBias), Add(Dot3(OpsinA[2], p), OpsinBias), Add(Dot3(OpsinA[3], p), OpsinBias)>>
XybOfMix(m) ==
  LET g(v) == Sub(Cbrt(Max(v, Z)), CbrtBias)
      L == g(m[1])  M == g(m[2])  S == g(m[3])
  IN <<DivInt(Sub(L, M), 2), DivInt(Add(L, M), 2), S>>
XybRef(p) == XybOfMix(OpsinMix(p))

\* C04 scope: the cube [0,4]^3, or pixels of [-1,4]^3 with a negative component whose three mixes are all
\* <= -1e-3 (clamped) or >= 0.05 (away from the cube root's singular point)
Four == FromInt(4)
InCube04(p)  == \A k \in 1..3 : p[k][1] >= 0 /\ Cmp(p[k], Four) <= 0
InCubeM14(p) == \A k \in 1..3 : Cmp(p[k], Neg(One)) >= 0 /\ Cmp(p[k], Four) <= 0
MixWellConditioned(m) == \A k \in 1..3 : Cmp(m[k], Neg(D(0, 0010, 0, 0, 0))) <= 0 \/ Cmp(m[k], D(0, 0500, 0, 0, 0)) >= 0
InScope04(p) == InCube04(p) \/ (InCubeM14(p) /\ (\E k \in 1..3 : p[k][1] < 0) /\ MixWellConditioned(OpsinMix(p)))
InUnitCube(p) == \A k \in 1..3 : p[k][1] >= 0 /\ Cmp(p[k], One) <= 0

-------------------------------------------------------------------------------------
(* Colour primaries (C06, C16): H.273 Table 2 chromaticities and white points; CIE xy -> XYZ;
   RGB->XYZ from primaries and white; Bradford chromatic adaptation.                             *)
XY(x4, y4) == <<Ratio(x4, 10000), Ratio(y4, 10000)>>          \* chromaticities given to 4 decimals
WhiteD65 == XY(3127, 3290)
WhiteC   == XY(3100, 3160)
WhiteDCI == XY(3140, 3510)
WhiteE   == <<Ratio(1, 3), Ratio(1, 3)>>
PrimXY(cp) ==
  CASE cp = 1  -> <<XY(6400, 3300), XY(3000, 6000), XY(1500, 0600)>>
    [] cp = 4  -> <<XY(6700, 3300), XY(2100, 7100), XY(1400, 0800)>>
    [] cp = 5  -> <<XY(6400, 3300), XY(2900, 6000), XY(1500, 0600)>>
    [] cp \in {6, 7} -> <<XY(6300, 3400), XY(3100, 5950), XY(1550, 0700)>>
    [] cp = 8  -> <<XY(6810, 3190), XY(2430, 6920), XY(1450, 0490)>>
    [] cp = 9  -> <<XY(7080, 2920), XY(1700, 7970), XY(1310, 0460)>>
    [] cp \in {11, 12} -> <<XY(6800, 3200), XY(2650, 6900), XY(1500, 0600)>>
    [] cp = 22 -> <<XY(6300, 3400), XY(2950, 6050), XY(1550, 0770)>>
WhiteXY(cp) == CASE cp \in {4, 8} -> WhiteC [] cp = 10 -> WhiteE [] cp = 11 -> WhiteDCI [] OTHER -> WhiteD65
\* xy -> XYZ with Y = 1
XYZofXY(c) == LET ry == Recip(c[2]) IN <<Mul(c[1], ry), One, Mul(Sub(Sub(One, c[1]), c[2]), ry)>>
\* RGB -> XYZ matrix of a primaries set (ST 428 is the CIE XYZ encoding itself: identity gamut, white E)
RgbToXyz(cp) ==
  IF cp = 10 THEN Ident3 ELSE
  LET xy == PrimXY(cp)
      P  == Transpose(<<XYZofXY(xy[1]), XYZofXY(xy[2]), XYZofXY(xy[3])>>)     \* columns = primaries
      S  == MatVec(Inv3(P), XYZofXY(WhiteXY(cp)))
  IN MatMul(P, Diag3(S))
Bradford == <<<<D(0, 8951, 0, 0, 0), D(0, 2664, 0, 0, 0), Neg(D(0, 1614, 0, 0, 0))>>,
              <<Neg(D(0, 7502, 0, 0, 0)), D(1, 7135, 0, 0, 0), D(0, 0367, 0, 0, 0)>>,
              <<D(0, 0389, 0, 0, 0), Neg(D(0, 0685, 0, 0, 0)), D(1, 0296, 0, 0, 0)>>>>
BradfordInv == Inv3(Bradford)
Adapt(win, wout) ==
  IF win = wout THEN Ident3 ELSE
  LET a == MatVec(Bradford, XYZofXY(win))  b == MatVec(Bradford, XYZofXY(wout))
  IN MatMul(BradfordInv, MatMul(Diag3(<<Mul(b[1], Recip(a[1])), Mul(b[2], Recip(a[2])), Mul(b[3], Recip(a[3]))>>), Bradford))
\* linear RGB in primaries `from`  ->  linear RGB in primaries `to`
PrimMatrix(from, to) ==
  IF from = to THEN Ident3
  ELSE MatMul(Inv3(RgbToXyz(to)), MatMul(Adapt(WhiteXY(from), WhiteXY(to)), RgbToXyz(from)))
\* the 22 reference matrices against the BT.709 working space, computed once
PrimTab == [cp \in Cp11 |-> [to709 |-> PrimMatrix(cp, 1), from709 |-> PrimMatrix(1, cp)]]
PrimRef(cp, dir, p) == MatVec(IF dir = "to709" THEN PrimTab[cp].to709 ELSE PrimTab[cp].from709, p)
\* 1e-5 * max(1, |v|)
RelTol5(v) == IF Cmp(Abs(v), One) > 0 THEN Mul(Tol1em5, Abs(v)) ELSE Tol1em5

-------------------------------------------------------------------------------------
(* HSL, hexcone model (C17, C16): rational relations only. *)
Max3(p) == Max(Max(p[1], p[2]), p[3])
Min3(p) == Min(Min(p[1], p[2]), p[3])
F360 == FromInt(360)
\* |a - b| modulo 360 <= tol
NearMod360(a, b, tol) ==
  LET d == Abs(Sub(a, b)) IN Cmp(d, Add(tol, SpecEps)) <= 0 \/ Cmp(Abs(Sub(d, F360)), Add(tol, SpecEps)) <= 0
\* hue in degrees by the sextant of the maximum channel, c = max - min > 0
HueRef(p) ==
  LET mx == Max3(p)  c == Sub(mx, Min3(p))  rc == Recip(c)
      h == IF p[1] = mx THEN Mul(Sub(p[2], p[3]), rc)
           ELSE IF p[2] = mx THEN Add(Two, Mul(Sub(p[3], p[1]), rc))
           ELSE Add(FromInt(4), Mul(Sub(p[1], p[2]), rc))
      d == MulInt(h, 60)
  IN IF d[1] < 0 THEN Add(d, F360) ELSE d
\* when two channels tie for the maximum both sextant formulas are legitimate readings of "hue by the
\* sextant of the maximum channel" and agree modulo 360; HueRef picks the first, NearMod360 absorbs the rest
=====================================================================================
