------------------------------ MODULE ColourScience ------------------------------
(* The standards behind yuvxyb, as exact-arithmetic definitions over FxReal.

   Nothing here is transcribed from the Rust sources.  The constants are the ones printed in the
   property statements and in the standards (ITU-T H.273 / H.265 Annex E, ITU-R BT.709/BT.1886/
   BT.2100, SMPTE ST 2084, ARIB STD-B67, IEC 61966-2-1/-2-4, CIE 15, libjxl's opsin transform), so a
   mistyped constant in the code disagrees with this module instead of being mirrored by it.

   Enumerations are H.273 code points (integers):
     MatrixCoefficients  0 Identity 1 BT709 2 Unspecified 3 Reserved 4 BT470M(FCC) 5 BT470BG 6 ST170M
                         7 ST240M 8 YCgCo 9 BT2020NCL 10 BT2020CL 11 ST2085 12 ChromaNCL 13 ChromaCL 14 ICtCp
     ColourPrimaries     0 Reserved0 1 BT709 2 Unspecified 3 Reserved 4 BT470M 5 BT470BG 6 ST170M 7 ST240M
                         8 Film 9 BT2020 10 ST428 11 P3DCI 12 P3Display 22 Tech3213(EBU)
     TransferCharacteristics 0 Reserved0 1 BT1886(BT709) 2 Unspecified 3 Reserved 4 BT470M 5 BT470BG
                         6 ST170M 7 ST240M 8 Linear 9 Log100 10 Log316 11 XVYCC 12 BT1361E 13 SRGB
                         14 BT2020Ten 15 BT2020Twelve 16 PQ 17 ST428 18 HLG                          *)
EXTENDS FxReal

McAll == 0..14
CpAll == (0..12) \cup {22}
TcAll == 0..18
Std7  == {1, 4, 5, 6, 7, 8, 9}                                \* the 7 standard non-constant-luminance matrices
Tc14  == {1, 4, 5, 6, 7, 8, 9, 10, 11, 13, 14, 15, 16, 18}    \* the 14 supported curves
Cp11  == {1, 4, 5, 6, 7, 8, 9, 10, 11, 12, 22}                \* the 11 supported primaries
Depths == 8..16

Pow2(n) == 2^n

-------------------------------------------------------------------------------------
\* H.273 Table 4: luma coefficients Kr, Kb
Kr(mc) == CASE mc = 1 -> D(0, 2126, 0, 0, 0)
            [] mc = 4 -> D(0, 3000, 0, 0, 0)
            [] mc \in {5, 6} -> D(0, 2990, 0, 0, 0)
            [] mc = 7 -> D(0, 2120, 0, 0, 0)
            [] mc = 9 -> D(0, 2627, 0, 0, 0)
Kb(mc) == CASE mc = 1 -> D(0, 0722, 0, 0, 0)
            [] mc = 4 -> D(0, 1100, 0, 0, 0)
            [] mc \in {5, 6} -> D(0, 1140, 0, 0, 0)
            [] mc = 7 -> D(0, 0870, 0, 0, 0)
            [] mc = 9 -> D(0, 0593, 0, 0, 0)

\* per-matrix derived constants, computed once (zero-arity function => cached by TLC)
KTab == [mc \in Std7 \ {8} |->
           LET kr == Kr(mc)  kb == Kb(mc)  kg == Sub(Sub(One, kr), kb)
           IN [kr |-> kr, kb |-> kb, kg |-> kg,
               kginv |-> Recip(kg),
               cr2 |-> MulInt(Sub(One, kr), 2),            \* 2(1-Kr)
               cb2 |-> MulInt(Sub(One, kb), 2),            \* 2(1-Kb)
               cr2inv |-> Recip(MulInt(Sub(One, kr), 2)),
               cb2inv |-> Recip(MulInt(Sub(One, kb), 2))]]

\* --- quantisation ranges (H.273 eq. 10-19 form)
BlackY(full, n)  == IF full THEN 0 ELSE 16 * Pow2(n - 8)
ScaleY(full, n)  == IF full THEN Pow2(n) - 1 ELSE 219 * Pow2(n - 8)
MidC(n)          == Pow2(n - 1)
ScaleC(full, n)  == IF full THEN Pow2(n) - 1 ELSE 224 * Pow2(n - 8)
WhiteY(full, n)  == IF full THEN Pow2(n) - 1 ELSE 235 * Pow2(n - 8)
MaxCode(n)       == Pow2(n) - 1
MHalf == Neg(Half)

\* code -> normalised value, clamped to the nominal range
NormY(full, n, c) == Clamp(Ratio(c - BlackY(full, n), ScaleY(full, n)), Z, One)
NormC(full, n, c) == Clamp(Ratio(c - MidC(n), ScaleC(full, n)), MHalf, Half)

\* C01: the H.273 decode of one code triple  <<Y, U, V>>  ->  <<R, G, B>>
DecodeRef(mc, full, n, p) ==
  LET y  == NormY(full, n, p[1])
      cb == NormC(full, n, p[2])
      cr == NormC(full, n, p[3])
  IN IF mc = 8                               \* YCgCo: Cg is carried in the Cb plane, Co in the Cr plane
       THEN LET t == Sub(y, cb) IN <<Add(t, cr), Add(y, cb), Sub(t, cr)>>
       ELSE LET k == KTab[mc]
                r == Add(y, Mul(k.cr2, cr))
                b == Add(y, Mul(k.cb2, cb))
                g == Mul(Sub(Sub(y, Mul(k.kr, r)), Mul(k.kb, b)), k.kginv)
            IN <<r, g, b>>

\* C02: real-valued H.273 quantisation of one R'G'B' pixel  ->  <<Y, U, V>> ideal (unrounded, unclamped)
EncodeIdeal(mc, full, n, q) ==
  LET ypbpr == IF mc = 8
                 THEN <<Add3(DivInt(q[1], 4), DivInt(q[2], 2), DivInt(q[3], 4)),
                        Sub(DivInt(q[2], 2), Add(DivInt(q[1], 4), DivInt(q[3], 4))),
                        Sub(DivInt(q[1], 2), DivInt(q[3], 2))>>
                 ELSE LET k == KTab[mc]
                          y == Add3(Mul(k.kr, q[1]), Mul(k.kg, q[2]), Mul(k.kb, q[3]))
                      IN <<y, Mul(Sub(q[3], y), k.cb2inv), Mul(Sub(q[1], y), k.cr2inv)>>
  IN <<Add(MulInt(ypbpr[1], ScaleY(full, n)), FromInt(BlackY(full, n))),
       Add(MulInt(ypbpr[2], ScaleC(full, n)), FromInt(MidC(n))),
       Add(MulInt(ypbpr[3], ScaleC(full, n)), FromInt(MidC(n)))>>

\* C08: legal range of a plane's code
LegalLo(full, n, plane) == IF full THEN 0 ELSE 16 * Pow2(n - 8)
LegalHi(full, n, plane) == IF full THEN MaxCode(n) ELSE (IF plane = 1 THEN 235 ELSE 240) * Pow2(n - 8)
ClampLegal(full, n, plane, c) ==
  IF c < LegalLo(full, n, plane) THEN LegalLo(full, n, plane)
  ELSE IF c > LegalHi(full, n, plane) THEN LegalHi(full, n, plane) ELSE c
RoundTripOk(full, n, plane, in, out) ==
  \/ out = ClampLegal(full, n, plane, in)
  \/ (full /\ plane # 1 /\ in = 0 /\ out = 1)

\* C09 budget: max(1, floor(0.015 * (2^n - 1)))
Budget09(n) == LET b == (15 * (Pow2(n) - 1)) \div 1000 IN IF b < 1 THEN 1 ELSE b

\* tolerances that the properties state (names say which property)
Tol01     == D(0, 0, 0300, 0, 0)         \* 3e-6
TolGreySp == D(0, 0, 0050, 0, 0)         \* 5e-7
Tol1em6   == D(0, 0, 0100, 0, 0)         \* 1e-6
Tol1em5   == D(0, 0, 1000, 0, 0)         \* 1e-5
Tol1em4   == D(0, 1, 0, 0, 0)            \* 1e-4
Tol2em6   == D(0, 0, 0200, 0, 0)         \* 2e-6
Tol5em5   == D(0, 0, 5000, 0, 0)         \* 5e-5
TolCurve  == D(0, 2, 5000, 0, 0)         \* 2.5e-4
TolPQ     == D(0, 5, 7000, 0, 0)         \* 5.7e-4
TolExact  == D(0, 0, 5000, 0, 0)         \* 5e-5  (C20, fastmath off)
\* C02: 0.5 + 1e-6 * 2^n
Tol02(n)  == Add(Half, MulInt(Tol1em6, Pow2(n)))
=====================================================================================
