SPECIFICATION GSpec
CONSTANTS
  LumaW = {1, 2, 3, 4, 8}
  LumaH = {1, 2, 3, 4, 8}
  ChromaW = {0, 1, 2, 3, 4, 5}
  ChromaH = {0, 1, 2, 3, 4, 5}
  Decs = {0, 1, 2}
  Pads = {0, 1}
  Sts = {8, 16}
  SsPairs <- SsSix
  NoChromaSizeCheck = FALSE
INVARIANTS AcceptedFramesAreSafe UncoveredRejected RejectedHasError
CHECK_DEADLOCK FALSE
