------------------------------- MODULE MathKernels -------------------------------
(* Contracts of the float-level helpers (bit patterns, ulp relations).  Grows with C18/C19/C20. *)
EXTENDS FxReal

\* raw bits on the wire: <<hi16, lo16>>
IsZeroBits(b) == b[2] = 0 /\ (b[1] = 0 \/ b[1] = 32768)
SameBits(a, b) == a[1] = b[1] /\ a[2] = b[2]
=====================================================================================
