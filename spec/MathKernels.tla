------------------------------- MODULE MathKernels -------------------------------
(* Contracts of yuvxyb-math (C18, C19, C20): bit patterns, ulp relations on exact (mantissa, exponent)
   integers, relative-error relations in the log domain, exact 3x3 algebra.

   Float wire formats used here:
     bits  <<hi16, lo16>>                          raw f32 bit pattern
     me    <<class, sign, m, e>>                   value = sign * m * 2^e  (exact)
           class 0 zero, 1 normal (2^23 <= m < 2^24), 2 subnormal, 3 +inf, 4 -inf, 5 NaN            *)
EXTENDS FxReal

IsZeroBits(b) == b[2] = 0 /\ (b[1] = 0 \/ b[1] = 32768)
SameBits(a, b) == a[1] = b[1] /\ a[2] = b[2]
NegBits(b) == <<(b[1] + 32768) % 65536, b[2]>>          \* flip the sign bit

IsNormal(a) == a[1] = 1
\* ln of a positive normal float given as me:  ln(m / 2^23) + (e + 23) ln 2
LnME(a) == Add(Ln(DivPow2(FromInt(a[3]), 23)), MulInt(Ln2, a[4] + 23))

\* the same float logged two ways (decimal limbs and exact mantissa/exponent) must agree: guards the harness's encoders
FxOfME(a) == LET v == IF a[4] >= 0 THEN MulPow2(FromInt(a[3]), a[4]) ELSE DivPow2(FromInt(a[3]), -a[4])
             IN IF a[2] < 0 THEN Neg(v) ELSE v
WireConsistent(xfx, xme) == (xfx[1] # 9 /\ xme[1] \in {1, 2} /\ xme[4] \in -140..3) =>
                               Cmp(Abs(Sub(xfx, FxOfME(xme))), Units(12)) <= 0

\* ---- cbrtf: |t - cbrt(x)| <= k ulp(t), decided exactly on integers:
\*      (m_t - k)^3 2^(3 e_t)  <=  m_x 2^(e_x)  <=  (m_t + k)^3 2^(3 e_t)
Cube(n) == LET a == NatOf(n) IN NatMul(NatMul(a, a), a)
CbrtWithin(x, t, k) ==
  /\ IsNormal(x) /\ IsNormal(t) /\ x[2] = t[2]
  /\ LET d == x[4] - 3 * t[4] IN
       /\ d \in 0..52                                  \* a result within k ulp has d in 45..49
       /\ LET mid == NatShl(NatOf(x[3]), d) IN
            NatCmp(Cube(t[3] - k), mid) <= 0 /\ NatCmp(mid, Cube(t[3] + k)) <= 0

\* ---- powf: relative error in the log domain
Ln1e35 == MulInt(Ln10, 35)
Y80    == FromInt(80)
PowInScope(x, y) == /\ IsNormal(x) /\ x[2] = 1 /\ y[1] # 9 /\ Cmp(Abs(y), Y80) <= 0
                    /\ Cmp(Abs(Mul(y, LnME(x))), Ln1e35) <= 0
\* fastmath contract: relative error <= 2.5e-4 + 8e-6 |y|
PowTolFast(y) == Ln(Add(One, Add(D(0, 2, 5000, 0, 0), Mul(D(0, 0, 0800, 0, 0), Abs(y)))))
\* libm contract of the exact build (C20): 2 ulp, i.e. relative 2 * 2^-23
TwoUlpRel == Ln(Add(One, DivPow2(Two, 23)))
PowOk(x, y, r, tol) == IsNormal(r) /\ r[2] = 1 /\ Cmp(Abs(Sub(LnME(r), Mul(y, LnME(x)))), Add(tol, SpecEps)) <= 0

\* ---- expf
X85 == FromInt(85)
ExpTolFast == Ln(Add(One, D(0, 0, 1000, 0, 0)))          \* ln(1 + 1e-5)
\* x <= 1e38 on exact me:  1e38 = 9860761.3 * 2^103
LeqE38(a) == a[1] \in {0, 1, 2} /\ (a[4] + 23 < 126 \/ (a[4] + 23 = 126 /\ a[3] <= 9860761))
ExpSaturates(xfx, xme, r) ==
  /\ (xme[2] = 1 /\ LeqE38(xme) /\ (xfx[1] = 9 \/ Cmp(xfx, FromInt(89)) >= 0)) => r[1] = 3       \* +inf on [89, 1e38]
  /\ (xme[2] = -1 /\ LeqE38(xme) /\ (xfx[1] = 9 \/ Cmp(xfx, FromInt(-88)) <= 0)) => r[1] = 0     \* 0 on [-1e38, -88]
\* `sat`: the saturation clauses of the fastmath contract (C18).  They are not demanded of the exact build (C20),
\* where libm correctly returns subnormals just below -88.
ExpOk(xfx, xme, r, tol, sat) ==
  /\ (xfx[1] # 9 /\ Cmp(Abs(xfx), X85) <= 0) =>
        (IsNormal(r) /\ r[2] = 1 /\ Cmp(Abs(Sub(LnME(r), xfx)), Add(tol, SpecEps)) <= 0)
  /\ ~sat \/ ExpSaturates(xfx, xme, r)


\* ---- 3x3 algebra (C19): tolerance 1e-5 * max(1, |exact|)
RelTolAlg(v) == LET t == D(0, 0, 1000, 0, 0) IN IF Cmp(Abs(v), One) > 0 THEN Mul(t, Abs(v)) ELSE t
NumOk(o, ref)  == o[1] # 9 /\ Cmp(Abs(Sub(o, ref)), Add(RelTolAlg(ref), SpecEps)) <= 0
VecOk(o, ref)  == \A k \in 1..3 : NumOk(o[k], ref[k])
MatOk(o, ref)  == \A i \in 1..3 : VecOk(o[i], ref[i])
InBox2(x)      == x[1] # 9 /\ Cmp(Abs(x), Two) <= 0
VecIn2(v)      == \A k \in 1..3 : InBox2(v[k])
MatIn2(m)      == \A i \in 1..3 : VecIn2(m[i])
ScaleVec(v, r) == <<Mul(v[1], r), Mul(v[2], r), Mul(v[3], r)>>
CMul(a, b)     == <<Mul(a[1], b[1]), Mul(a[2], b[2]), Mul(a[3], b[3])>>
NearIdent(P)   == \A i, j \in 1..3 : P[i][j][1] # 9 /\
                    Cmp(Abs(Sub(P[i][j], Ident3[i][j])), Add(D(0, 1, 0, 0, 0), SpecEps)) <= 0     \* 1e-4
MatAllNum(m)   == \A i, j \in 1..3 : m[i][j][1] # 9
=====================================================================================
