INIT Init
NEXT Next
