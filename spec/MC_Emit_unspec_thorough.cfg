SPECIFICATION Spec
CONSTANTS
  Sizes <- UnspecSizes
  McIn <- McAll
  TcIn = {2, 1, 16}
  CpIn = {2, 1, 9, 5}
  NIn = {8, 10, 16}
  SsIn <- Ss00
  FullIn = {0}
  StIn = {16}
  MaxCalls = 2
  FreshOnly = TRUE
  Quirks <- QuirksOff
ACTION_CONSTRAINT Emit
CHECK_DEADLOCK FALSE
