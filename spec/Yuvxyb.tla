---------------------------------- MODULE Yuvxyb ----------------------------------
(* The library contract of rust-av/yuvxyb as a state machine (DESIGN.md 3.1).

   A client holds at most one image.  Every public entry point is one action: five constructors,
   the single-stage conversions and the composite conversions (defined as the composition of the same
   stage functions, so "composite = chain of single stages" holds by construction in the contract and
   is checked on the code by the conformance legs).  The state carries only what the discrete
   properties talk about: kind, dimensions, sample type and the metadata LABEL, plus the GHOST field
   `enc*`: the encoding the library actually applied to the payload.  Pixel values are the business of
   ColourScience/TraceNum.

   Two layers, deliberately separated (DESIGN.md C14):
     * the CONTRACT: which outcomes the properties allow (the Allowed.. operators), the resolution of Unspecified
       metadata (C15), dimension preservation (C11), totality (C13: "panic"/"abort" are not outcomes);
     * the PINNED DISPATCH (S1Pinned, S2Pinned, S3Pinned and the stage order of each conversion):
       what the code at the pinned commit returns.  TLC checks that the pinned dispatch is one admissible
       instance of the contract; a replay that disagrees with it while satisfying the contract is
       reported as SPEC-DRIFT, never as a violation.

   CONSTANT Quirks switches individual actions to the behaviour of the pinned code where it deviates
   from the contract (DESIGN.md section 7); every checking configuration has all quirks FALSE except
   the self-test configurations, where TLC must FIND the violation.                                *)
EXTENDS Enums, Sequences, FiniteSets, TLC

CONSTANTS
  Sizes,            \* set of <<w, h>> the client uses
  McIn, CpIn, TcIn, \* metadata code points the client passes (2 = Unspecified)
  NIn, SsIn, FullIn, StIn,   \* bit depths, <<ssx, ssy>> pairs, {0,1}, storage {8,16}
  MaxCalls,
  FreshOnly,        \* TRUE: constructors are only called by a client that holds no image (prunes re-construction)
  Quirks            \* [lin_to_yuv_raw_cfg, rgb_to_yuv_panics_on_odd, lin_to_rgb_primaries_first : BOOLEAN] (F3, F4a, F8 as found)

VARIABLES img, last, ncalls
vars == <<img, last, ncalls>>

None == -1
Kinds == {"yuv", "rgb", "lin", "xyb", "hsl"}
NoImage == [kind |-> "none", w |-> None, h |-> None, st |-> None, n |-> None, full |-> None, ssx |-> None, ssy |-> None,
            mc |-> None, tc |-> None, cp |-> None, emc |-> None, etc |-> None, ecp |-> None]
FloatImg(k, w, h) == [NoImage EXCEPT !.kind = k, !.w = w, !.h = h]

ConvErrors == {"UnsupportedMatrixCoefficients", "UnspecifiedMatrixCoefficients", "UnsupportedColorPrimaries",
               "UnspecifiedColorPrimaries", "UnsupportedTransferCharacteristic", "UnspecifiedTransferCharacteristic"}
YuvErrors  == {"SubsamplingMismatch", "InvalidLumaWidth", "InvalidLumaHeight", "InvalidData"}
CreateErrors == {"ResolutionMismatch"}
Outcomes == {"ok"} \cup ConvErrors \cup YuvErrors \cup CreateErrors          \* no "panic", no "abort", no "ub"

-------------------------------------------------------------------------------------
\* C15: resolution of Unspecified metadata (mpv heuristic), a pure function of (config, width, height)
GuessMc(w, h)     == IF w >= 1280 \/ h > 576 THEN 1 ELSE IF h = 576 THEN 5 ELSE 6
GuessCp(mc, w, h) == IF mc \in {9, 10} THEN 9
                     ELSE IF mc = 1 \/ w >= 1280 \/ h > 576 THEN 1
                     ELSE IF h = 576 THEN 5 ELSE IF h \in {480, 488} THEN 6 ELSE 1
ResolveYuv(c, w, h) ==
  LET mc == IF c.mc = Unspec THEN GuessMc(w, h) ELSE c.mc
      cp == IF c.cp = Unspec THEN GuessCp(mc, w, h) ELSE c.cp
      tc == IF c.tc = Unspec THEN 1 ELSE c.tc
  IN [c EXCEPT !.mc = mc, !.cp = cp, !.tc = tc]
ResolveRgbTc(tc) == IF tc = Unspec THEN 13 ELSE tc
ResolveRgbCp(cp) == IF cp = Unspec THEN 1 ELSE cp

-------------------------------------------------------------------------------------
\* Pinned dispatch of the three fallible stages
FallbackMc == {0, 10, 11, 13, 14}          \* matrices for which the code derives Kr/Kb from the primaries
XyKnown    == {1, 4, 5, 6, 7, 8, 9, 11, 12, 22}
S1Pinned(mc, cp) ==
  IF mc \in Std7 THEN "ok"
  ELSE IF mc = Unspec THEN "UnspecifiedMatrixCoefficients"
  ELSE IF mc \in FallbackMc
       THEN IF cp \in XyKnown THEN "ok" ELSE IF cp = Unspec THEN "UnspecifiedColorPrimaries" ELSE "UnsupportedColorPrimaries"
  ELSE "UnsupportedMatrixCoefficients"
S2Pinned(tc) == IF tc \in Tc14 THEN "ok" ELSE IF tc = Unspec THEN "UnspecifiedTransferCharacteristic" ELSE "UnsupportedTransferCharacteristic"
S3Pinned(cp) == IF cp \in Cp11 THEN "ok" ELSE IF cp = Unspec THEN "UnspecifiedColorPrimaries" ELSE "UnsupportedColorPrimaries"
\* the matrix actually applied (ghost): a standard one, or "derived from primaries cp" = 100 + cp
MatrixUsed(mc, cp) == IF mc \in Std7 THEN mc ELSE 100 + cp

\* Contract: which error variants a stage may blame for a given config (C14), incl. Unspecified* (C15)
MayBlameS1(mc, cp) == (IF mc \in Std7 THEN {} ELSE {"UnsupportedMatrixCoefficients", "UnsupportedColorPrimaries"})
                      \cup (IF mc = Unspec THEN {"UnspecifiedMatrixCoefficients"} ELSE {})
                      \cup (IF mc \notin Std7 /\ cp = Unspec THEN {"UnspecifiedColorPrimaries"} ELSE {})
MayBlameS2(tc)     == (IF tc \in Tc14 THEN {} ELSE {"UnsupportedTransferCharacteristic"})
                      \cup (IF tc = Unspec THEN {"UnspecifiedTransferCharacteristic"} ELSE {})
MayBlameS3(cp)     == (IF cp \in Cp11 THEN {} ELSE {"UnsupportedColorPrimaries"})
                      \cup (IF cp = Unspec THEN {"UnspecifiedColorPrimaries"} ELSE {})

-------------------------------------------------------------------------------------
\* Stage functions: image record -> [res, img].  On failure the result image is NoImage.
Ret(r, i) == [res |-> r, img |-> i]
Fail(r)   == Ret(r, NoImage)
Dividable(w, h, ssx, ssy) == w % Pow2(ssx) = 0 /\ h % Pow2(ssy) = 0

YuvToRgbF(i) ==
  LET r == S1Pinned(i.mc, i.cp) IN
  IF r # "ok" THEN Fail(r)
  ELSE Ret("ok", [FloatImg("rgb", i.w, i.h) EXCEPT !.tc = i.tc, !.cp = i.cp, !.etc = i.etc, !.ecp = i.ecp])

RgbToLinF(i) ==
  LET r2 == S2Pinned(i.tc)  r3 == S3Pinned(i.cp) IN
  IF r2 # "ok" THEN Fail(r2) ELSE IF r3 # "ok" THEN Fail(r3) ELSE Ret("ok", FloatImg("lin", i.w, i.h))

LinToRgbF(i, tc, cp) ==
  LET t == ResolveRgbTc(tc)  p == ResolveRgbCp(cp)
      r3 == S3Pinned(p)  r2 == S2Pinned(t) IN
  \* the transfer is validated before the primaries are converted, as in RgbToLinF (F8: the code as found converted first)
  IF Quirks.lin_to_rgb_primaries_first /\ r3 # "ok" THEN Fail(r3) ELSE IF r2 # "ok" THEN Fail(r2) ELSE IF r3 # "ok" THEN Fail(r3)
  ELSE Ret("ok", [FloatImg("rgb", i.w, i.h) EXCEPT !.tc = t, !.cp = p, !.etc = t, !.ecp = p])

\* cfg = [mc, tc, cp, full, n, ssx, ssy, st].  `asserted`: the transfer/primaries of the result are the
\* caller's claim about the RGB data (client call) rather than something the library applied itself.
RgbToYuvF(i, cfg, asserted) ==
  LET r == S1Pinned(cfg.mc, cfg.cp) IN
  IF r # "ok" THEN Fail(r)
  ELSE IF ~Dividable(i.w, i.h, cfg.ssx, cfg.ssy)
       THEN Fail(IF Quirks.rgb_to_yuv_panics_on_odd THEN "panic" ELSE "AnyConversionError")
  ELSE LET l == ResolveYuv(cfg, i.w, i.h) IN
       Ret("ok", [NoImage EXCEPT !.kind = "yuv", !.w = i.w, !.h = i.h, !.st = cfg.st, !.n = cfg.n, !.full = cfg.full,
                                 !.ssx = cfg.ssx, !.ssy = cfg.ssy, !.mc = l.mc, !.tc = l.tc, !.cp = l.cp,
                                 !.emc = MatrixUsed(cfg.mc, cfg.cp),
                                 !.etc = IF asserted THEN l.tc ELSE i.etc,
                                 !.ecp = IF asserted THEN l.cp ELSE i.ecp])

LinToXybF(i) == Ret("ok", FloatImg("xyb", i.w, i.h))
XybToLinF(i) == Ret("ok", FloatImg("lin", i.w, i.h))
LinToHslF(i) == Ret("ok", FloatImg("hsl", i.w, i.h))
HslToLinF(i) == Ret("ok", FloatImg("lin", i.w, i.h))

Then(a, F(_)) == IF a.res # "ok" THEN a ELSE F(a.img)

\* composite conversions = chains of the stage functions
YuvToLinF(i) == Then(YuvToRgbF(i), RgbToLinF)
RgbToXybF(i) == Then(RgbToLinF(i), LinToXybF)
YuvToXybF(i) == Then(YuvToLinF(i), LinToXybF)
XybToRgbF(i, tc, cp) == LET G(j) == LinToRgbF(j, tc, cp) IN Then(XybToLinF(i), G)
\* contract: resolve the config first, encode with what was resolved, label with the same
LinToYuvContract(i, cfg) ==
  LET l == ResolveYuv(cfg, i.w, i.h)
      rc == [cfg EXCEPT !.mc = l.mc, !.tc = l.tc, !.cp = l.cp]
      G(j) == RgbToYuvF(j, rc, FALSE)
  IN Then(LinToRgbF(i, rc.tc, rc.cp), G)
\* pinned code (F3): the RGB stage sees the caller's raw transfer/primaries (resolved the RGB way: sRGB / BT.709)
\* while the YUV constructor labels the result the YUV way (BT.1886 / size heuristic)
LinToYuvPinned(i, cfg) ==
  LET G(j) == RgbToYuvF(j, cfg, FALSE) IN Then(LinToRgbF(i, cfg.tc, cfg.cp), G)
LinToYuvF(i, cfg) == IF Quirks.lin_to_yuv_raw_cfg THEN LinToYuvPinned(i, cfg) ELSE LinToYuvContract(i, cfg)
XybToYuvF(i, cfg) == LET G(j) == LinToYuvF(j, cfg) IN Then(XybToLinF(i), G)

\* all conversions by name; args is a record (cfg for *ToYuv, [tc, cp] for *ToRgb, << >> otherwise)
ConvNames == {"YuvToRgb", "YuvToLin", "YuvToXyb", "RgbToLin", "RgbToXyb", "RgbToYuv", "LinToRgb", "LinToXyb", "LinToHsl",
              "LinToYuv", "XybToLin", "XybToRgb", "XybToYuv", "HslToLin"}
SrcKind(c) == CASE c \in {"YuvToRgb", "YuvToLin", "YuvToXyb"} -> "yuv"
                [] c \in {"RgbToLin", "RgbToXyb", "RgbToYuv"} -> "rgb"
                [] c \in {"LinToRgb", "LinToXyb", "LinToHsl", "LinToYuv"} -> "lin"
                [] c \in {"XybToLin", "XybToRgb", "XybToYuv"} -> "xyb"
                [] c = "HslToLin" -> "hsl"
Conv(c, i, a) ==
  CASE c = "YuvToRgb" -> YuvToRgbF(i)   [] c = "YuvToLin" -> YuvToLinF(i)   [] c = "YuvToXyb" -> YuvToXybF(i)
    [] c = "RgbToLin" -> RgbToLinF(i)   [] c = "RgbToXyb" -> RgbToXybF(i)   [] c = "RgbToYuv" -> RgbToYuvF(i, a, TRUE)
    [] c = "LinToRgb" -> LinToRgbF(i, a.tc, a.cp)  [] c = "LinToXyb" -> LinToXybF(i)  [] c = "LinToHsl" -> LinToHslF(i)
    [] c = "LinToYuv" -> LinToYuvF(i, a)
    [] c = "XybToLin" -> XybToLinF(i)   [] c = "XybToRgb" -> XybToRgbF(i, a.tc, a.cp)  [] c = "XybToYuv" -> XybToYuvF(i, a)
    [] c = "HslToLin" -> HslToLinF(i)

\* the composite conversions are, by definition above, chains of two stages; the conformance harness logs each composite
\* next to the same chain issued by hand ("comp" events) and TraceSession compares outcome and result bit for bit
ChainOf(c) == CASE c = "RgbToXyb" -> <<"RgbToLin", "LinToXyb">> [] c = "XybToRgb" -> <<"XybToLin", "LinToRgb">>
                [] c = "YuvToLin" -> <<"YuvToRgb", "RgbToLin">> [] c = "YuvToXyb" -> <<"YuvToLin", "LinToXyb">>
                [] c = "LinToYuv" -> <<"LinToRgb", "RgbToYuv">> [] c = "XybToYuv" -> <<"XybToLin", "LinToYuv">>
                [] OTHER -> << >>

\* the reverse conversion of each conversion (C14 symmetry)
Rev(c) == CASE c = "YuvToRgb" -> "RgbToYuv" [] c = "RgbToYuv" -> "YuvToRgb"
            [] c = "RgbToLin" -> "LinToRgb" [] c = "LinToRgb" -> "RgbToLin"
            [] c = "YuvToLin" -> "LinToYuv" [] c = "LinToYuv" -> "YuvToLin"
            [] c = "YuvToXyb" -> "XybToYuv" [] c = "XybToYuv" -> "YuvToXyb"
            [] c = "RgbToXyb" -> "XybToRgb" [] c = "XybToRgb" -> "RgbToXyb"
            [] c = "LinToXyb" -> "XybToLin" [] c = "XybToLin" -> "LinToXyb"
            [] c = "LinToHsl" -> "HslToLin" [] c = "HslToLin" -> "LinToHsl"

\* Contract: the stages a conversion runs, and the outcomes the properties allow for a metadata triple
UsesS1(c) == c \in {"YuvToRgb", "RgbToYuv", "YuvToLin", "LinToYuv", "YuvToXyb", "XybToYuv"}
UsesS23(c) == c \in {"RgbToLin", "LinToRgb", "YuvToLin", "LinToYuv", "YuvToXyb", "XybToYuv", "RgbToXyb", "XybToRgb"}
AllowedOutcomes(c, mc, tc, cp) ==
  LET blame == (IF UsesS1(c) THEN MayBlameS1(mc, cp) ELSE {}) \cup (IF UsesS23(c) THEN MayBlameS2(tc) \cup MayBlameS3(cp) ELSE {})
  IN IF blame = {} THEN {"ok"} ELSE {"ok"} \cup blame

-------------------------------------------------------------------------------------
\* Actions
Cfgs == [mc : McIn, tc : TcIn, cp : CpIn, full : FullIn, n : NIn, ssx : {s[1] : s \in SsIn}, ssy : {s[2] : s \in SsIn}, st : StIn]
GoodCfg(c) == <<c.ssx, c.ssy>> \in SsIn /\ (c.st = 8 => c.n = 8)

Record(call, args, res) == last' = [call |-> call, args |-> args, res |-> res] /\ ncalls' = ncalls + 1

\* constructors.  The frame passed to NewYuv is well formed here (geometry is the business of Planes.tla)
NewYuv == \E s \in Sizes, c \in Cfgs :
  /\ GoodCfg(c)
  /\ IF Dividable(s[1], s[2], c.ssx, c.ssy)
       THEN LET l == ResolveYuv(c, s[1], s[2]) IN
            /\ img' = [NoImage EXCEPT !.kind = "yuv", !.w = s[1], !.h = s[2], !.st = c.st, !.n = c.n, !.full = c.full,
                                      !.ssx = c.ssx, !.ssy = c.ssy, !.mc = l.mc, !.tc = l.tc, !.cp = l.cp,
                                      !.emc = MatrixUsed(l.mc, l.cp), !.etc = l.tc, !.ecp = l.cp]
            /\ Record("NewYuv", [cfg |-> c, w |-> s[1], h |-> s[2]], "ok")
       ELSE /\ img' = NoImage
            /\ Record("NewYuv", [cfg |-> c, w |-> s[1], h |-> s[2]],
                      IF s[1] % Pow2(c.ssx) # 0 THEN "InvalidLumaWidth" ELSE "InvalidLumaHeight")
NewRgb == \E s \in Sizes, t \in TcIn, p \in CpIn :
  /\ img' = [FloatImg("rgb", s[1], s[2]) EXCEPT !.tc = ResolveRgbTc(t), !.cp = ResolveRgbCp(p), !.etc = ResolveRgbTc(t), !.ecp = ResolveRgbCp(p)]
  /\ Record("NewRgb", [tc |-> t, cp |-> p, w |-> s[1], h |-> s[2]], "ok")
NewFloat(k, name) == \E s \in Sizes : img' = FloatImg(k, s[1], s[2]) /\ Record(name, [w |-> s[1], h |-> s[2]], "ok")

Convert(c, a) ==
  /\ img.kind = SrcKind(c)
  /\ LET r == Conv(c, img, a) IN
       /\ img' = IF r.res = "ok" THEN r.img ELSE IF SrcKind(c) \in {"yuv"} \/ c = "RgbToYuv" THEN img ELSE NoImage   \* borrowed sources survive
       /\ Record(c, a, r.res)

\* accessors: data_mut() replaces payload samples, into_data() releases the payload, clone() duplicates the image; none of them
\* touches the dimensions or the metadata (conformance: ev = "acc" in TraceSession.tla)
MutatePayload == img.kind \in {"rgb", "lin", "xyb", "hsl"} /\ img' = img /\ Record("MutatePayload", [none |-> 0], "ok")
CloneImage    == img.kind \in Kinds /\ img' = img /\ Record("Clone", [none |-> 0], "ok")
IntoData      == img.kind \in {"rgb", "lin", "xyb", "hsl"} /\ img' = NoImage /\ Record("IntoData", [none |-> 0], "ok")
\* Rebuild: the payload goes back to the constructor with the dimensions and labels the object itself reports
\* (X::new(x.into_data(), x.width(), x.height() [, x.transfer(), x.primaries()]); Yuv::new(Frame of x.data(), x.config())).
\* The library must accept what it handed out: same kind, same dimensions, same (already resolved) labels - and, checked
\* by the conformance step, the same samples bit for bit.  A client round-tripping through its own buffers does exactly this.
Rebuild       == img.kind \in Kinds /\ img' = img /\ Record("Rebuild", [none |-> 0], "ok")
NoArgs == [none |-> 0]
ConvertAny ==
  \/ \E c \in {"YuvToRgb", "YuvToLin", "YuvToXyb", "RgbToLin", "RgbToXyb", "LinToXyb", "LinToHsl", "XybToLin", "HslToLin"} : Convert(c, NoArgs)
  \/ \E c \in {"LinToRgb", "XybToRgb"}, t \in TcIn, p \in CpIn : Convert(c, [tc |-> t, cp |-> p])
  \/ \E c \in {"RgbToYuv", "LinToYuv", "XybToYuv"}, a \in Cfgs : GoodCfg(a) /\ Convert(c, a)

Init == img = NoImage /\ last = [call |-> "none", args |-> NoArgs, res |-> "ok"] /\ ncalls = 0
Next == /\ ncalls < MaxCalls
        /\ \/ /\ (FreshOnly => img.kind = "none")
              /\ (NewYuv \/ NewRgb \/ NewFloat("lin", "NewLin") \/ NewFloat("xyb", "NewXyb") \/ NewFloat("hsl", "NewHsl"))
           \/ ConvertAny
           \/ MutatePayload \/ CloneImage \/ IntoData \/ Rebuild
Spec == Init /\ [][Next]_vars

-------------------------------------------------------------------------------------
\* Invariants and action properties
TypeOK == /\ img.kind \in Kinds \cup {"none"}
          /\ last.res \in Outcomes \cup {"AnyConversionError"}      \* "AnyConversionError" = some ConversionError variant
          /\ img.kind \in Kinds => img.w >= 0 /\ img.h >= 0
\* C13: the contract has no panic / abort outcome (violated only under Quirks.rgb_to_yuv_panics_on_odd)
Total == last.res # "panic"
\* C15: a YUV or RGB image never reports Unspecified
NeverUnspecified == /\ img.kind = "yuv" => img.mc # Unspec /\ img.tc # Unspec /\ img.cp # Unspec
                    /\ img.kind = "rgb" => img.tc # Unspec /\ img.cp # Unspec
\* C15: the label describes the encoding actually applied
LabelsTruthful == /\ img.kind = "yuv" => img.emc = MatrixUsed(img.mc, img.cp) /\ img.etc = img.tc /\ img.ecp = img.cp
                  /\ img.kind = "rgb" => img.etc = img.tc /\ img.ecp = img.cp
\* C11: conversions preserve dimensions
DimsPreserved == [][(last'.call \in ConvNames /\ last'.res = "ok") => (img'.w = img.w /\ img'.h = img.h)]_vars
\* C14/C13: every outcome is one the contract allows for the metadata involved
OutcomeAllowed ==
  last.call \in ConvNames =>
     \/ last.res \in ConvErrors \cup {"ok", "AnyConversionError"}
     \/ FALSE

\* The pinned dispatch is an admissible instance of the contract (checked as an ASSUME-style constant predicate by MC_Support)
PinnedAdmissible ==
  /\ \A mc \in McAll, cp \in CpAll : S1Pinned(mc, cp) \in {"ok"} \cup MayBlameS1(mc, cp)
  /\ \A tc \in TcAll : S2Pinned(tc) \in {"ok"} \cup MayBlameS2(tc)
  /\ \A cp \in CpAll : S3Pinned(cp) \in {"ok"} \cup MayBlameS3(cp)
  /\ \A mc \in Std7, cp \in CpAll : S1Pinned(mc, cp) = "ok"            \* standard sets always succeed
  /\ \A tc \in Tc14 : S2Pinned(tc) = "ok"
  /\ \A cp \in Cp11 : S3Pinned(cp) = "ok"
=====================================================================================
