"""Orchestration only (DESIGN.md 5.6): build the harness, run it, shard, run TLC, collect TLC's verdicts,
match them against known_findings.json, write evidence.  No expected values, no tolerances here."""
import concurrent.futures as cf
import fcntl
import json
import os
import re
import shutil
import subprocess
import sys
import time

VERIF = os.path.dirname(os.path.dirname(os.path.abspath(__file__)))     # /verif, or a snapshot of it (vp run)
SPEC = f"{VERIF}/spec"
HARNESS = f"{VERIF}/harness"
JAR = "/opt/veriftools/tla/tla2tools.jar"
CP = f"{JAR}:/opt/veriftools/tla/CommunityModules-deps.jar"
NSHARDS = int(os.environ.get("VERIF_SHARDS", "14"))


class ToolError(Exception):
    pass


def log(*a):
    print(*a, flush=True)


def seed():
    try:
        return int(os.environ.get("VERIF_SEED", "1"))
    except ValueError:
        return 1


# ------------------------------------------------------------------------------------------
# building the harness against /repo's current working tree
def _fma_flags():
    # the "FMA" builds are what `-C target-cpu=haswell`-or-later users get: FMA together with AVX2 where this CPU has it
    # (code behind cfg(target_feature = "avx2") is compiled in those builds only)
    try:
        flags = open("/proc/cpuinfo").read()
    except OSError:
        flags = ""
    return "-C target-feature=+fma,+avx2" if " avx2" in flags else "-C target-feature=+fma"


FMA = _fma_flags()


def _cpu_has(flag):
    try:
        return f" {flag}" in open("/proc/cpuinfo").read()
    except OSError:
        return True


# a build for a target feature this CPU does not have would die of SIGILL, which is not a verdict on the code: such
# builds are left out (and the evidence says so)
HAS_FMA = _cpu_has("fma")
BUILDS = {
    # name: (cargo args, RUSTFLAGS)
    "fast-nofma-release": (["--release", "--features", "fast"], ""),
    "fast-nofma-checked": (["--profile", "checked", "--features", "fast"], ""),
    "fast-fma-release": (["--release", "--features", "fast"], FMA),
    "fast-fma-checked": (["--profile", "checked", "--features", "fast"], FMA),
    # the default build with a global allocator that returns 4-mod-16 addresses for low-alignment requests (a host dimension)
    "fast-nofma-misalign": (["--release", "--features", "fast,misalign"], ""),
    "exact-nofma-release": (["--release"], ""),
    "exact-nofma-checked": (["--profile", "checked"], ""),
    "exact-fma-release": (["--release"], FMA),
    "exact-fma-checked": (["--profile", "checked"], FMA),
}


def usable(build):
    return HAS_FMA or "-fma-" not in build


def extra_features():
    """Cargo features of yuvxyb / yuvxyb-math that the harness does not know by name (anything beyond default, fastmath and
    verif-hooks): an opt-in feature added to the crate is a build configuration like any other."""
    repo = os.environ.get("VERIF_REPO", "/repo")
    found = []
    for crate, path in (("yuvxyb", f"{repo}/Cargo.toml"), ("yuvxyb-math", f"{repo}/yuvxyb-math/Cargo.toml")):
        try:
            txt = open(path).read()
        except OSError:
            continue
        m = re.search(r"^\[features\]\s*$(.*?)(?=^\[|\Z)", txt, re.M | re.S)
        if not m:
            continue
        for name in re.findall(r"^\s*([A-Za-z0-9_-]+)\s*=", m.group(1), re.M):
            if name not in ("default", "fastmath", "verif-hooks"):
                found.append(f"{crate}/{name}")
    return found


ALLFEAT = "fast-nofma-allfeat"


def builds_for_c20():
    """the fixed build matrix, plus one build with every unknown cargo feature switched on when the crate has any"""
    b = sorted(x for x in BUILDS if usable(x))
    if extra_features():
        b.append(ALLFEAT)
    return b


def build_harness(workdir, build="fast-nofma-release"):
    """cargo build (offline, incremental) under a per-target-dir lock; returns the binary path."""
    if build == ALLFEAT:
        args, rustflags = (["--release", "--features", ",".join(["fast", "allfeat"] + extra_features())], "")
    else:
        args, rustflags = BUILDS[build]
    hdir = HARNESS
    repo = os.environ.get("VERIF_REPO", "/repo")
    if repo != "/repo":
        # measurement aid (bin/trymutant-wt): build the same harness against a scratch worktree of /repo
        hdir = f"{VERIF}/work/harness-alt-{abs(hash(repo)) % 10**8}-{os.path.basename(repo)}"
        os.makedirs(hdir, exist_ok=True)
        shutil.copytree(f"{HARNESS}/src", f"{hdir}/src", dirs_exist_ok=True)
        shutil.copytree(f"{HARNESS}/.cargo", f"{hdir}/.cargo", dirs_exist_ok=True)
        shutil.copy2(f"{HARNESS}/Cargo.lock", f"{hdir}/Cargo.lock")
        open(f"{hdir}/Cargo.toml", "w").write(open(f"{HARNESS}/Cargo.toml").read().replace('path = "/repo', f'path = "{repo}'))
    tdir = f"{hdir}/target-{build}"
    os.makedirs(tdir, exist_ok=True)
    env = dict(os.environ, CARGO_NET_OFFLINE="true", CARGO_TARGET_DIR=tdir)
    if rustflags:
        env["RUSTFLAGS"] = rustflags
    else:
        env.pop("RUSTFLAGS", None)
    with open(f"{tdir}/.verif.lock", "w") as lk:
        fcntl.flock(lk, fcntl.LOCK_EX)
        t0 = time.time()
        p = subprocess.run(["cargo", "build", "--offline", "-q"] + args, cwd=hdir, env=env,
                           stdout=subprocess.PIPE, stderr=subprocess.STDOUT, text=True)
        if p.returncode != 0:
            raise ToolError(f"harness build ({build}) failed:\n{p.stdout[-4000:]}")
        prof = "release" if "--release" in args else "checked"
        # copy the binary so that a concurrent rebuild cannot swap it under a running check
        src = f"{tdir}/{prof}/yvx-conform"
        if not os.path.exists(src):
            raise ToolError(f"harness binary missing: {src}")
        dst = f"{workdir}/yvx-conform-{build}"
        shutil.copy2(src, dst)
        return dst, time.time() - t0


# ------------------------------------------------------------------------------------------
# TLC
def tlc_cmd(module, metadir, extra=(), workers=1, xmx="2500m", cfg=None):
    cmd = ["java", "-XX:+UseSerialGC" if workers == 1 else "-XX:+UseParallelGC", "-Xss512m", f"-Xmx{xmx}",
           "-Dtlc2.tool.queue.IStateQueue=StateDeque", "-cp", CP, "tlc2.TLC",
           "-workers", str(workers), "-noGenerateSpecTE", "-metadir", metadir, "-cleanup"]
    if cfg:
        cmd += ["-config", cfg]
    return cmd + list(extra) + [module]


def run_tlc(module, workdir, tag, env_extra=None, extra=(), workers=1, xmx="2500m", cfg=None, timeout=3600):
    metadir = f"{workdir}/meta-{tag}"
    env = dict(os.environ)
    if env_extra:
        env.update(env_extra)
    t0 = time.time()
    try:
        p = subprocess.run(tlc_cmd(module, metadir, extra, workers, xmx, cfg), cwd=SPEC, env=env,
                           stdout=subprocess.PIPE, stderr=subprocess.STDOUT, text=True, timeout=timeout)
    except subprocess.TimeoutExpired:
        raise ToolError(f"TLC timeout on {module} {tag}")
    finally:
        shutil.rmtree(metadir, ignore_errors=True)
    return p.returncode, p.stdout, time.time() - t0


_STATS = re.compile(r"(\d+) states generated, (\d+) distinct states found")


def parse_states(out):
    m = None
    for m in _STATS.finditer(out):
        pass
    return (int(m.group(1)), int(m.group(2))) if m else (0, 0)


def fxrealtest(workdir):
    rc, out, dt = run_tlc("FxRealTest", workdir, "fxtest")
    if rc != 0 or "No error has been found" not in out:
        raise ToolError("FxRealTest failed (spec arithmetic kernel):\n" + out[-3000:])
    return dt


def validate_shards(module, shard_paths, workdir, env_extra=None, cfg=None, drift=None, regen=None):
    """One single-worker TLC per shard, in parallel.  Returns (fails, stats) where fails is a list of
    dicts {shard, id, prop, verdict} exactly as TLC printed them."""
    fails, tot_events, states, trans = [], 0, 0, 0
    per = []

    def one(path):
        tag = os.path.basename(path)
        e = {"TRACE": path}
        if env_extra:
            e.update(env_extra)
        return path, run_tlc(module, workdir, tag, env_extra=e, cfg=cfg)

    with cf.ThreadPoolExecutor(max_workers=NSHARDS) as ex:
        for path, (rc, out, dt) in ex.map(one, shard_paths):
            done = re.search(r'^"DONE (\d+)"', out, re.M)
            nlines = sum(1 for _ in open(path))
            if rc != 0 or not done or int(done.group(1)) != nlines:
                errs = "\n".join(l for l in out.splitlines() if re.search(r"rror|xception|Assert|overflow|FxReal|OutOfMemory", l))[:3000]
                raise ToolError(f"TLC did not accept/consume {path} (rc={rc}, lines={nlines}):\n{errs}\n...\n{out[-1500:]}")
            tot_events += nlines
            g, d = parse_states(out)
            states += d
            trans += g
            if drift is not None:
                for m in re.finditer(r'^"DRIFT (.*)"$', out, re.M):
                    drift.append(m.group(1).encode().decode("unicode_escape"))
            for m in re.finditer(r'^"FAIL (.*)"$', out, re.M):
                raw = m.group(1).encode().decode("unicode_escape")
                ident, prop, verdict = json.loads(raw)
                if verdict and str(verdict[0]).startswith("TOOL."):
                    raise ToolError(f"the trace itself is inconsistent ({verdict[0]}) at event {ident} of {path}: a harness defect, not a verdict")
                fails.append({"shard": path, "id": ident, "prop": prop, "verdict": verdict, "regen": dict(regen, module=module) if regen else None})
            per.append(dt)
    return fails, {"events": tot_events, "states": states, "transitions": trans, "tlc_wall_max_s": max(per) if per else 0}


def load_events(fails):
    """fetch the failing events from their shards (for replay files and known-finding matching)"""
    by_shard = {}
    for f in fails:
        by_shard.setdefault(f["shard"], set()).add(f["id"])
    found = {}
    for path, ids in by_shard.items():
        with open(path) as fh:
            for line in fh:
                # cheap pre-filter on the id prefix
                m = re.match(r'\{"id":(\d+),', line)
                if m and int(m.group(1)) in ids:
                    found[(path, int(m.group(1)))] = json.loads(line)
    for f in fails:
        f["event"] = found.get((f["shard"], f["id"]))
        # stateful traces: keep the whole session of the rejected line so that the replay file is self-contained
        if f["event"] and "sid" in f["event"]:
            sid = f["event"]["sid"]
            f["session"] = [json.loads(l) for l in open(f["shard"]) if f'"sid":{sid},' in l]
    return fails


# ------------------------------------------------------------------------------------------
# known findings
def load_known():
    p = f"{VERIF}/known_findings.json"
    if not os.path.exists(p):
        return []
    return json.load(open(p)).get("findings", [])


def _match(pattern, value):
    """pattern: scalar (equality), list (membership), dict (recursive subset)"""
    if isinstance(pattern, dict):
        return isinstance(value, dict) and all(k in value and _match(v, value[k]) for k, v in pattern.items())
    if isinstance(pattern, list):
        return value in pattern
    return pattern == value


def classify(prop, fails):
    """split TLC-reported failures into (known-open, new).  Only status=open entries suppress."""
    known = [k for k in load_known() if k.get("status") == "open" and k["property"] == prop]
    hits, new = {}, []
    for f in fails:
        clause = f["verdict"][0] if f["verdict"] else ""
        k_hit = None
        for k in known:
            if k.get("clause") and k["clause"] != clause:
                continue
            if k.get("event") and not (f.get("event") and _match(k["event"], f["event"])):
                continue
            k_hit = k
            break
        if k_hit is not None:
            hits.setdefault(k_hit["id"], [k_hit, 0])[1] += 1
        else:
            new.append(f)
    return hits, new


# ------------------------------------------------------------------------------------------
def evidence_dir():
    # runs against a scratch worktree (VERIF_REPO, measurement of seeded changes) must not overwrite the real evidence
    return f"{VERIF}/evidence" if os.environ.get("VERIF_REPO", "/repo") == "/repo" else f"{VERIF}/work/evidence-alt"


def write_replays(prop, new_fails, limit=20):
    d = f"{evidence_dir()}/replays"
    os.makedirs(d, exist_ok=True)
    paths = []
    for n, f in enumerate(new_fails[:limit]):
        path = f"{d}/{prop}-{n}.json"
        json.dump({"property": prop, "verdict": f["verdict"], "tlc_event_id": f["id"], "event": f.get("event"), "session": f.get("session"),
                   "regen": f.get("regen"),
                   "how": f"bin/check {prop} --replay {path}   re-issues the call against the CURRENT /repo (the generator is deterministic in "
                          "(family, tier, seed, build): it is re-run and the event with the same id is judged again by TLC; TLC-generated cases are "
                          "replayed from the stored case); add --recorded to re-judge the recorded observation instead"},
                  open(path, "w"))
        paths.append(path)
    return paths


def write_evidence(prop, tier, level, coverage, wall, violations, assumptions):
    os.makedirs(evidence_dir(), exist_ok=True)
    ev = {"property_id": prop, "tier": tier, "seed": seed(), "level": level, "coverage": coverage,
          "assumptions": assumptions, "wall_s": round(wall, 2), "violations": violations}
    tmp = f"{evidence_dir()}/.{prop}.json.tmp"
    json.dump(ev, open(tmp, "w"), indent=1)
    os.replace(tmp, f"{evidence_dir()}/{prop}.json")


def sample_events(shard_paths, k=3, maxlen=500):
    out = []
    for p in shard_paths[:k]:
        with open(p) as fh:
            line = fh.readline().strip()
            if line:
                out.append(line if len(line) <= maxlen else line[:maxlen] + " ...(truncated)")
    return out
