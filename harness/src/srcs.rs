//! Float images built the ways a caller can build them: from the final pixel data (`new`), or by painting the pixel
//! data through `data_mut()` into an image that already exists - a grey canvas from `new`, or a grey image that came
//! OUT of a conversion.  What a conversion returns may depend on the pixel data only, not on the image's history, so
//! every numeric family rotates over these constructions (the rotation is a deterministic per-thread counter).

use std::cell::Cell;

use yuvxyb::{ColorPrimaries, Hsl, LinearRgb, Rgb, TransferCharacteristic, Xyb};

thread_local! {
    // one counter per kind of image: families alternate between kinds, a shared counter would lock each kind to a parity
    static K: [Cell<u32>; 4] = const { [Cell::new(0), Cell::new(0), Cell::new(0), Cell::new(0)] };
}
fn mode(kind: usize, npx: usize) -> u32 {
    let k = K.with(|c| {
        let v = c[kind].get();
        c[kind].set(v.wrapping_add(1));
        v
    });
    // priming a canvas through a conversion costs a conversion: small images only
    if npx <= 4096 {
        k % 4
    } else if npx <= 400_000 {
        k % 2
    } else {
        0
    }
}
fn grey(n: usize) -> Vec<[f32; 3]> {
    vec![[0.5, 0.5, 0.5]; n]
}
const E: &str = "ctor";

pub fn lin(px: &[[f32; 3]], w: usize, h: usize) -> Result<LinearRgb, &'static str> {
    let mut img = match mode(0, px.len()) {
        0 => return LinearRgb::new(px.to_vec(), w, h).map_err(|_| E),
        1 => LinearRgb::new(grey(px.len()), w, h).map_err(|_| E)?,
        2 => LinearRgb::from(Xyb::from(LinearRgb::new(grey(px.len()), w, h).map_err(|_| E)?)),
        _ => LinearRgb::from(Hsl::from(LinearRgb::new(grey(px.len()), w, h).map_err(|_| E)?)),
    };
    if img.data().len() != px.len() {
        return Err("shape");
    }
    img.data_mut().copy_from_slice(px);
    Ok(img)
}
pub fn xyb(px: &[[f32; 3]], w: usize, h: usize) -> Result<Xyb, &'static str> {
    let mut img = match mode(1, px.len()) {
        0 => return Xyb::new(px.to_vec(), w, h).map_err(|_| E),
        1 => Xyb::new(grey(px.len()), w, h).map_err(|_| E)?,
        2 => Xyb::from(LinearRgb::new(grey(px.len()), w, h).map_err(|_| E)?),
        _ => Xyb::new(vec![[0.0, 0.5, 0.5]; px.len()], w, h).map_err(|_| E)?,
    };
    if img.data().len() != px.len() {
        return Err("shape");
    }
    img.data_mut().copy_from_slice(px);
    Ok(img)
}
pub fn hsl(px: &[[f32; 3]], w: usize, h: usize) -> Result<Hsl, &'static str> {
    let mut img = match mode(2, px.len()) {
        0 => return Hsl::new(px.to_vec(), w, h).map_err(|_| E),
        1 => Hsl::new(vec![[0.0, 0.0, 0.5]; px.len()], w, h).map_err(|_| E)?,
        _ => Hsl::from(LinearRgb::new(grey(px.len()), w, h).map_err(|_| E)?),
    };
    if img.data().len() != px.len() {
        return Err("shape");
    }
    img.data_mut().copy_from_slice(px);
    Ok(img)
}
pub fn rgb(px: &[[f32; 3]], w: usize, h: usize, t: TransferCharacteristic, p: ColorPrimaries) -> Result<Rgb, &'static str> {
    let mut img = match mode(3, px.len()) {
        0 => return Rgb::new(px.to_vec(), w, h, t, p).map_err(|_| E),
        1 => Rgb::new(grey(px.len()), w, h, t, p).map_err(|_| E)?,
        _ => match Rgb::try_from((LinearRgb::new(grey(px.len()), w, h).map_err(|_| E)?, t, p)) {
            // the labels of a converted image are the resolved ones: only usable when they are what was asked for
            Ok(r) if r.transfer() == t && r.primaries() == p => r,
            _ => Rgb::new(grey(px.len()), w, h, t, p).map_err(|_| E)?,
        },
    };
    if img.data().len() != px.len() {
        return Err("shape");
    }
    img.data_mut().copy_from_slice(px);
    Ok(img)
}
