//! Spec -> implementation: replay TLC-generated transitions of Yuvxyb!Spec against the real library.
//! For every case: rebuild the pre-state through the public API, perform the call, log what was observed
//! (outcome and the abstract projection of the result).  No comparison with the case's expected values
//! happens here - TraceSession.tla judges the observation.

use std::fmt::Write as _;
use std::io::{BufRead, BufReader};
use std::panic::{catch_unwind, AssertUnwindSafe};

use serde_json::Value;
use yuvxyb::{Hsl, LinearRgb, Pixel, Rgb, Xyb, Yuv};

use crate::frames::{err_name_conv, err_name_yuv, frame_from_pixels, plane_samples, Cfg};
use crate::util::{cp, fx32, tc, Rng, Shards};

fn geti(v: &Value, k: &str) -> i64 {
    v.get(k).and_then(Value::as_i64).unwrap_or(-1)
}
fn cfg_of(v: &Value) -> Cfg {
    Cfg { mc: geti(v, "mc") as u8, tc: geti(v, "tc") as u8, cp: geti(v, "cp") as u8, full: geti(v, "full") == 1, n: geti(v, "n") as u8, ssx: geti(v, "ssx") as u8, ssy: geti(v, "ssy") as u8 }
}

/// what the client holds
enum Img {
    Yuv8(Yuv<u8>),
    Yuv16(Yuv<u16>),
    Rgb(Rgb),
    Lin(LinearRgb),
    Xyb(Xyb),
    Hsl(Hsl),
}

fn post_json(i: &Img) -> String {
    fn y<T: Pixel>(y: &Yuv<T>, st: u8) -> String {
        let c = y.config();
        format!(
            "{{\"kind\":\"yuv\",\"w\":{},\"h\":{},\"st\":{st},\"n\":{},\"full\":{},\"ssx\":{},\"ssy\":{},\"mc\":{},\"tc\":{},\"cp\":{},\"cw\":{},\"ch\":{}}}",
            y.width(), y.height(), c.bit_depth, u8::from(c.full_range), c.subsampling_x, c.subsampling_y, c.matrix_coefficients as u8,
            c.transfer_characteristics as u8, c.color_primaries as u8, y.data()[1].cfg.width, y.data()[1].cfg.height
        )
    }
    let f = |k: &str, w: usize, h: usize, len: usize| format!("{{\"kind\":\"{k}\",\"w\":{w},\"h\":{h},\"len\":{len}}}");
    match i {
        Img::Yuv8(v) => y(v, 8),
        Img::Yuv16(v) => y(v, 16),
        Img::Rgb(r) => format!("{{\"kind\":\"rgb\",\"w\":{},\"h\":{},\"tc\":{},\"cp\":{},\"len\":{}}}", r.width(), r.height(), r.transfer() as u8, r.primaries() as u8, r.data().len()),
        Img::Lin(r) => f("lin", r.width(), r.height(), r.data().len()),
        Img::Xyb(r) => f("xyb", r.width(), r.height(), r.data().len()),
        Img::Hsl(r) => f("hsl", r.width(), r.height(), r.data().len()),
    }
}

fn rand_unit(rng: &mut Rng, n: usize) -> Vec<[f32; 3]> {
    (0..n).map(|_| [rng.unit() as f32, rng.unit() as f32, rng.unit() as f32]).collect()
}

fn legal_codes(rng: &mut Rng, c: &Cfg, n: usize) -> Vec<[u16; 3]> {
    let k = 1u64 << (c.n - 8);
    let (lo, hy, hc) = if c.full { (0, (1u64 << c.n) - 1, (1u64 << c.n) - 1) } else { (16 * k, 235 * k, 240 * k) };
    (0..n).map(|_| [(lo + rng.below(hy - lo + 1)) as u16, (lo + rng.below(hc - lo + 1)) as u16, (lo + rng.below(hc - lo + 1)) as u16]).collect()
}

fn new_yuv(c: &Cfg, st: i64, w: usize, h: usize, rng: &mut Rng) -> Result<Img, String> {
    let px = legal_codes(rng, c, w * h);
    // plane paddings are the caller's business and nothing observable may depend on them (in particular not the
    // size-based resolution of Unspecified metadata): half of the frames are tight, the others padded by 1..32
    const PADS: [[(usize, usize); 3]; 6] =
        [[(1, 1), (0, 0), (0, 0)], [(8, 8), (8, 8), (8, 8)], [(32, 32), (16, 16), (16, 16)], [(0, 1), (1, 0), (0, 0)], [(1, 0), (0, 0), (0, 1)], [(2, 2), (1, 1), (1, 1)]];
    let k = rng.below(12) as usize;
    let pads = if k < 6 { PADS[k] } else { [(0, 0); 3] };
    if st == 8 {
        Yuv::<u8>::new(frame_from_pixels::<u8>(&px, w, h, c.ssx, c.ssy, pads), c.yuv_config()).map(Img::Yuv8).map_err(|e| err_name_yuv(e).to_string())
    } else {
        Yuv::<u16>::new(frame_from_pixels::<u16>(&px, w, h, c.ssx, c.ssy, pads), c.yuv_config()).map(Img::Yuv16).map_err(|e| err_name_yuv(e).to_string())
    }
}

fn build_pre(pre: &Value, rng: &mut Rng) -> Result<Img, String> {
    let w = geti(pre, "w") as usize;
    let h = geti(pre, "h") as usize;
    match pre.get("kind").and_then(Value::as_str).unwrap_or("none") {
        "yuv" => new_yuv(&cfg_of(pre), geti(pre, "st"), w, h, rng),
        "rgb" => Rgb::new(rand_unit(rng, w * h), w, h, tc(geti(pre, "tc") as u8), cp(geti(pre, "cp") as u8)).map(Img::Rgb).map_err(|_| "ResolutionMismatch".to_string()),
        "lin" => LinearRgb::new(rand_unit(rng, w * h), w, h).map(Img::Lin).map_err(|_| "ResolutionMismatch".to_string()),
        "xyb" => LinearRgb::new(rand_unit(rng, w * h), w, h).map(|l| Img::Xyb(Xyb::from(l))).map_err(|_| "ResolutionMismatch".to_string()),
        "hsl" => LinearRgb::new(rand_unit(rng, w * h), w, h).map(|l| Img::Hsl(Hsl::from(l))).map_err(|_| "ResolutionMismatch".to_string()),
        k => Err(format!("bad-kind:{k}")),
    }
}

fn clone_img(i: &Img) -> Img {
    match i {
        Img::Yuv8(v) => Img::Yuv8(v.clone()),
        Img::Yuv16(v) => Img::Yuv16(v.clone()),
        Img::Rgb(v) => Img::Rgb(v.clone()),
        Img::Lin(v) => Img::Lin(v.clone()),
        Img::Xyb(v) => Img::Xyb(v.clone()),
        Img::Hsl(v) => Img::Hsl(v.clone()),
    }
}

fn to_yuv<S>(src: S, st: i64, c: &Cfg) -> Result<Img, String>
where
    Yuv<u8>: TryFrom<(S, yuvxyb::YuvConfig), Error = yuvxyb::ConversionError>,
    Yuv<u16>: TryFrom<(S, yuvxyb::YuvConfig), Error = yuvxyb::ConversionError>,
{
    if st == 8 {
        Yuv::<u8>::try_from((src, c.yuv_config())).map(Img::Yuv8).map_err(|e| err_name_conv(e).to_string())
    } else {
        Yuv::<u16>::try_from((src, c.yuv_config())).map(Img::Yuv16).map_err(|e| err_name_conv(e).to_string())
    }
}

fn convert(call: &str, src: Img, args: &Value) -> Result<Img, String> {
    let e = |x: yuvxyb::ConversionError| err_name_conv(x).to_string();
    let st = geti(args, "st");
    match (call, src) {
        ("YuvToRgb", Img::Yuv8(y)) => Rgb::try_from(&y).map(Img::Rgb).map_err(e),
        ("YuvToRgb", Img::Yuv16(y)) => Rgb::try_from(&y).map(Img::Rgb).map_err(e),
        ("YuvToLin", Img::Yuv8(y)) => LinearRgb::try_from(&y).map(Img::Lin).map_err(e),
        ("YuvToLin", Img::Yuv16(y)) => LinearRgb::try_from(&y).map(Img::Lin).map_err(e),
        ("YuvToXyb", Img::Yuv8(y)) => Xyb::try_from(&y).map(Img::Xyb).map_err(e),
        ("YuvToXyb", Img::Yuv16(y)) => Xyb::try_from(&y).map(Img::Xyb).map_err(e),
        ("RgbToLin", Img::Rgb(r)) => LinearRgb::try_from(r).map(Img::Lin).map_err(e),
        ("RgbToXyb", Img::Rgb(r)) => Xyb::try_from(r).map(Img::Xyb).map_err(e),
        ("RgbToYuv", Img::Rgb(r)) => {
            let c = cfg_of(args);
            if st == 8 {
                Yuv::<u8>::try_from((&r, c.yuv_config())).map(Img::Yuv8).map_err(e)
            } else {
                Yuv::<u16>::try_from((&r, c.yuv_config())).map(Img::Yuv16).map_err(e)
            }
        }
        ("LinToRgb", Img::Lin(l)) => Rgb::try_from((l, tc(geti(args, "tc") as u8), cp(geti(args, "cp") as u8))).map(Img::Rgb).map_err(e),
        ("LinToXyb", Img::Lin(l)) => Ok(Img::Xyb(Xyb::from(l))),
        ("LinToHsl", Img::Lin(l)) => Ok(Img::Hsl(Hsl::from(l))),
        ("LinToYuv", Img::Lin(l)) => to_yuv(l, st, &cfg_of(args)),
        ("XybToLin", Img::Xyb(x)) => Ok(Img::Lin(LinearRgb::from(x))),
        ("XybToRgb", Img::Xyb(x)) => Rgb::try_from((x, tc(geti(args, "tc") as u8), cp(geti(args, "cp") as u8))).map(Img::Rgb).map_err(e),
        ("XybToYuv", Img::Xyb(x)) => to_yuv(x, st, &cfg_of(args)),
        ("HslToLin", Img::Hsl(x)) => Ok(Img::Lin(LinearRgb::from(x))),
        (c, _) => Err(format!("bad-call:{c}")),
    }
}

/// max |a - b| over all samples (the lossless projection of "all samples agree within a budget")
fn maxdiff(a: &Img, b: &Img) -> String {
    fn yd<T: Pixel>(a: &Yuv<T>, b: &Yuv<T>) -> String {
        let mut m = 0i64;
        for p in 0..3 {
            let (x, y) = (plane_samples(a, p), plane_samples(b, p));
            if x.len() != y.len() {
                return "\"shape\"".to_string();
            }
            for (u, v) in x.iter().zip(y.iter()) {
                m = m.max((i64::from(*u) - i64::from(*v)).abs());
            }
        }
        format!("{m}")
    }
    fn fd(a: &[[f32; 3]], b: &[[f32; 3]]) -> String {
        if a.len() != b.len() {
            return "\"shape\"".to_string();
        }
        let mut m = 0f32;
        for (p, q) in a.iter().zip(b.iter()) {
            for k in 0..3 {
                // bit-identical samples do not differ, whatever they are (NaN out of a curve fed with a negative sample)
                let d = if p[k].to_bits() == q[k].to_bits() { 0.0 } else { (p[k] - q[k]).abs() };
                if d > m || d.is_nan() {
                    m = d;
                }
            }
        }
        let mut s = String::new();
        fx32(&mut s, m);
        s
    }
    match (a, b) {
        (Img::Yuv8(x), Img::Yuv8(y)) => yd(x, y),
        (Img::Yuv16(x), Img::Yuv16(y)) => yd(x, y),
        (Img::Rgb(x), Img::Rgb(y)) => fd(x.data(), y.data()),
        (Img::Lin(x), Img::Lin(y)) => fd(x.data(), y.data()),
        (Img::Xyb(x), Img::Xyb(y)) => fd(x.data(), y.data()),
        (Img::Hsl(x), Img::Hsl(y)) => fd(x.data(), y.data()),
        _ => "\"kind\"".to_string(),
    }
}

fn guarded<F: FnOnce() -> Result<Img, String>>(f: F) -> Result<Img, String> {
    match catch_unwind(AssertUnwindSafe(f)) {
        Ok(r) => r,
        Err(_) => Err("panic".to_string()),
    }
}

/// a fresh object holding exactly what the live object holds now (samples, dimensions, labels), built through the
/// constructors: what a conversion returns for it is the reference for "does not depend on the object's history"
fn fresh_of(i: &Img) -> Result<Img, String> {
    fn y<T: Pixel>(v: &Yuv<T>) -> Result<Yuv<T>, String> {
        let p = v.data();
        Yuv::new(yuvxyb::Frame { planes: [p[0].clone(), p[1].clone(), p[2].clone()] }, v.config()).map_err(|e| format!("fresh:{}", err_name_yuv(e)))
    }
    let e = |_| "fresh:ResolutionMismatch".to_string();
    match i {
        Img::Yuv8(v) => y(v).map(Img::Yuv8),
        Img::Yuv16(v) => y(v).map(Img::Yuv16),
        Img::Rgb(v) => Rgb::new(v.data().to_vec(), v.width(), v.height(), v.transfer(), v.primaries()).map(Img::Rgb).map_err(e),
        Img::Lin(v) => LinearRgb::new(v.data().to_vec(), v.width(), v.height()).map(Img::Lin).map_err(e),
        Img::Xyb(v) => Xyb::new(v.data().to_vec(), v.width(), v.height()).map(Img::Xyb).map_err(e),
        Img::Hsl(v) => Hsl::new(v.data().to_vec(), v.width(), v.height()).map(Img::Hsl).map_err(e),
    }
}
fn paint(i: &mut Img, rng: &mut Rng) -> Result<(), String> {
    let d: &mut [[f32; 3]] = match i {
        Img::Rgb(v) => v.data_mut(),
        Img::Lin(v) => v.data_mut(),
        Img::Xyb(v) => v.data_mut(),
        Img::Hsl(v) => v.data_mut(),
        _ => return Err("bad-call:MutatePayload".to_string()),
    };
    // one paint in three also writes samples outside the unit cube ([-1, 2]^3, half of the pixels): state cached at
    // construction about the RANGE of the samples ("all non-negative", "in gamut") must not outlive data_mut() either
    let wide = rng.below(3) == 2;
    for p in d.iter_mut() {
        *p = if wide && rng.below(2) == 0 {
            [(rng.unit() * 3.0 - 1.0) as f32, (rng.unit() * 3.0 - 1.0) as f32, (rng.unit() * 3.0 - 1.0) as f32]
        } else {
            [rng.unit() as f32, rng.unit() as f32, rng.unit() as f32]
        };
    }
    Ok(())
}
fn into_len(i: Img) -> Result<usize, String> {
    match i {
        Img::Rgb(v) => Ok(v.into_data().len()),
        Img::Lin(v) => Ok(v.into_data().len()),
        Img::Xyb(v) => Ok(v.into_data().len()),
        Img::Hsl(v) => Ok(v.into_data().len()),
        _ => Err("bad-call:IntoData".to_string()),
    }
}
/// the payload handed straight back to the constructor with the dimensions and labels the object itself reports (spec action
/// Rebuild); the flag says whether the rebuilt object holds the same samples bit for bit
fn rebuild(i: Img) -> Result<(Img, bool), String> {
    fn fb(a: &[[f32; 3]], b: &[[f32; 3]]) -> bool {
        a.len() == b.len() && a.iter().zip(b).all(|(p, q)| (0..3).all(|k| p[k].to_bits() == q[k].to_bits()))
    }
    let e = |_| "ResolutionMismatch".to_string();
    match i {
        Img::Rgb(v) => {
            let (w, h, t, p) = (v.width(), v.height(), v.transfer(), v.primaries());
            let snap = v.data().to_vec();
            let r = Rgb::new(v.into_data(), w, h, t, p).map_err(e)?;
            let same = fb(&snap, r.data());
            Ok((Img::Rgb(r), same))
        }
        Img::Lin(v) => {
            let (w, h) = (v.width(), v.height());
            let snap = v.data().to_vec();
            let r = LinearRgb::new(v.into_data(), w, h).map_err(e)?;
            let same = fb(&snap, r.data());
            Ok((Img::Lin(r), same))
        }
        Img::Xyb(v) => {
            let (w, h) = (v.width(), v.height());
            let snap = v.data().to_vec();
            let r = Xyb::new(v.into_data(), w, h).map_err(e)?;
            let same = fb(&snap, r.data());
            Ok((Img::Xyb(r), same))
        }
        Img::Hsl(v) => {
            let (w, h) = (v.width(), v.height());
            let snap = v.data().to_vec();
            let r = Hsl::new(v.into_data(), w, h).map_err(e)?;
            let same = fb(&snap, r.data());
            Ok((Img::Hsl(r), same))
        }
        y => {
            let f = fresh_of(&y)?;
            let same = maxdiff(&y, &f) == "0";
            Ok((f, same))
        }
    }
}
fn construct(call: &str, args: &Value, rng: &mut Rng, grey: bool) -> Result<Img, String> {
    let w = geti(args, "w") as usize;
    let h = geti(args, "h") as usize;
    let data = |rng: &mut Rng| if grey { vec![[0.5f32, 0.5, 0.5]; w * h] } else { rand_unit(rng, w * h) };
    match call {
        "NewYuv" => new_yuv(&cfg_of(&args["cfg"]), geti(&args["cfg"], "st"), w, h, rng),
        "NewRgb" => Rgb::new(data(rng), w, h, tc(geti(args, "tc") as u8), cp(geti(args, "cp") as u8)).map(Img::Rgb).map_err(|_| "ResolutionMismatch".to_string()),
        "NewLin" => LinearRgb::new(data(rng), w, h).map(Img::Lin).map_err(|_| "ResolutionMismatch".to_string()),
        "NewXyb" => Xyb::new(if grey { vec![[0.0f32, 0.5, 0.5]; w * h] } else { rand_unit(rng, w * h) }, w, h).map(Img::Xyb).map_err(|_| "ResolutionMismatch".to_string()),
        // HSL triples as the constructor accepts them: any hue, saturation and lightness also a little outside [0, 1] (what
        // comes out of HslToLin is then outside the unit cube - and must be treated like the same samples given to `new`)
        "NewHsl" => Hsl::new(if grey { vec![[0.0f32, 0.0, 0.5]; w * h] } else { (0..w * h).map(|_| [(rng.unit() * 360.0) as f32, (rng.unit() * 1.5) as f32, (rng.unit() * 1.5 - 0.25) as f32]).collect() }, w, h)
            .map(Img::Hsl)
            .map_err(|_| "ResolutionMismatch".to_string()),
        c => Err(format!("bad-call:{c}")),
    }
}

/// One TLC-generated behaviour, stepped through ONE live object.  Each step is logged as a "replay" event (same shape
/// as a single replayed transition) plus: sid / k (behaviour and step number), obs.pre (projection of the live object
/// before the call) and obs.fresh (the same conversion on a fresh object holding the same samples).
fn run_behaviour(steps: &[Value], li: usize, sh: &mut Shards, seed: u64) -> u64 {
    let mut rng = Rng::new(seed, 0xbe4a_0000 + li as u64);
    let mut live: Option<Img> = None;
    // the object a Clone step was called on stays alive next to a constructor-built copy of what it held at that moment:
    // whatever happens to the clone afterwards (data_mut, conversions, drop), the original must still hold the same samples
    let mut kept: Option<(Img, Img)> = None;
    let mut n = 0;
    for (k, step) in steps.iter().enumerate() {
        let call = step["call"].as_str().unwrap_or("").to_string();
        let args = &step["args"];
        let rargs = &step["rargs"];
        let mut s = String::new();
        let _ = write!(s, "\"ev\":\"replay\",\"sid\":{li},\"k\":{k},\"case\":{step},\"obs\":{{");
        if let Some(i) = &live {
            let _ = write!(s, "\"pre\":{},", post_json(i));
        }
        if let Some((orig, snap)) = &kept {
            let key = if matches!(orig, Img::Yuv8(_) | Img::Yuv16(_)) { "aliasi" } else { "aliasf" };
            let d = maxdiff(orig, snap);
            // a shape / kind mismatch is a difference too (kept numeric so that TLC compares like with like)
            let d = if d.starts_with('"') { if key == "aliasi" { "-1".to_string() } else { "[9,1,0,0,0,0,0]".to_string() } } else { d };
            let _ = write!(s, "\"{key}\":{d},");
        }
        let res: Result<Option<Img>, String> = match call.as_str() {
            "NewYuv" | "NewRgb" | "NewLin" | "NewXyb" | "NewHsl" => {
                // every other behaviour starts from an all-grey image (state cached at construction must not outlive data_mut)
                let grey = li % 2 == 1;
                guarded(|| construct(&call, args, &mut rng, grey)).map(Some)
            }
            "MutatePayload" => match live.take() {
                None => Err("no-image".to_string()),
                Some(mut i) => match catch_unwind(AssertUnwindSafe(|| paint(&mut i, &mut rng).map(|()| i))) {
                    Ok(r) => r.map(Some),
                    Err(_) => Err("panic".to_string()),
                },
            },
            "Clone" => match live.take() {
                None => Err("no-image".to_string()),
                Some(i) => {
                    let c = guarded(|| Ok(clone_img(&i)));
                    if let Ok(snap) = guarded(|| fresh_of(&i)) {
                        kept = Some((i, snap));
                    }
                    c.map(Some)
                }
            },
            "Rebuild" => match live.take() {
                None => Err("no-image".to_string()),
                Some(i) => match catch_unwind(AssertUnwindSafe(|| rebuild(i))) {
                    Ok(Ok((r, same))) => {
                        let _ = write!(s, "\"same\":{},", u8::from(same));
                        Ok(Some(r))
                    }
                    Ok(Err(e)) => Err(e),
                    Err(_) => Err("panic".to_string()),
                },
            },
            "IntoData" => match live.take() {
                None => Err("no-image".to_string()),
                Some(i) => match catch_unwind(AssertUnwindSafe(|| into_len(i))) {
                    Ok(Ok(len)) => {
                        let _ = write!(s, "\"len\":{len},");
                        Ok(None)
                    }
                    Ok(Err(e)) => Err(e),
                    Err(_) => Err("panic".to_string()),
                },
            },
            _ => match live.take() {
                None => Err("no-image".to_string()),
                Some(src) => {
                    let keep = clone_img(&src); // borrowed sources survive a failed conversion (the model says which)
                    let fresh = guarded(|| fresh_of(&src));
                    let witness_src = if args != rargs { Some(clone_img(&src)) } else { None };
                    let a = guarded(|| convert(&call, src, args));
                    match fresh {
                        Ok(f) => {
                            let b = guarded(|| convert(&call, f, args));
                            match (&a, &b) {
                                (Ok(x), Ok(y)) => {
                                    let d = maxdiff(x, y);
                                    let d = if d.starts_with('"') { if matches!(x, Img::Yuv8(_) | Img::Yuv16(_)) { "-1".to_string() } else { "[9,1,0,0,0,0,0]".to_string() } } else { d };
                                    let _ = write!(s, "\"fresh\":{{\"res\":\"ok\",\"post\":{},\"maxdiff\":{d}}},", post_json(y));
                                }
                                (_, Err(e)) => {
                                    let _ = write!(s, "\"fresh\":{{\"res\":\"{e}\"}},");
                                }
                                (_, Ok(_)) => {
                                    let _ = write!(s, "\"fresh\":{{\"res\":\"ok\"}},");
                                }
                            }
                        }
                        Err(e) => {
                            let _ = write!(s, "\"fresh\":{{\"res\":\"{e}\"}},");
                        }
                    }
                    if let Some(ws) = witness_src {
                        let b = guarded(|| convert(&call, ws, rargs));
                        match (&a, &b) {
                            (Ok(x), Ok(y)) => {
                                let _ = write!(s, "\"resB\":\"ok\",\"postB\":{},\"maxdiff\":{},", post_json(y), maxdiff(x, y));
                            }
                            (_, Err(e)) => {
                                let _ = write!(s, "\"resB\":\"{e}\",");
                            }
                            (_, Ok(y)) => {
                                let _ = write!(s, "\"resB\":\"ok\",\"postB\":{},", post_json(y));
                            }
                        }
                    }
                    match a {
                        Ok(i) => Ok(Some(i)),
                        Err(e) => {
                            // the model keeps the image when the source was only borrowed
                            if step["post"]["kind"].as_str() != Some("none") {
                                live = Some(keep);
                            }
                            Err(e)
                        }
                    }
                }
            },
        };
        match res {
            Ok(Some(i)) => {
                let _ = write!(s, "\"res\":\"ok\",\"post\":{}}}", post_json(&i));
                live = Some(i);
            }
            Ok(None) => {
                s.push_str("\"res\":\"ok\"}");
            }
            Err(e) => {
                let _ = write!(s, "\"res\":\"{e}\"}}");
            }
        }
        sh.emit(&s);
        n += 1;
        if live.is_none() {
            break;
        }
    }
    n
}

pub fn run(cases_path: &str, sh: &mut Shards, seed: u64) -> serde_json::Value {
    let prev = std::panic::take_hook();
    std::panic::set_hook(Box::new(|_| {}));
    let rd = BufReader::new(std::fs::File::open(cases_path).expect("open cases"));
    let mut n = 0u64;
    for (li, line) in rd.lines().enumerate() {
        let line = line.expect("read");
        if line.trim().is_empty() {
            continue;
        }
        let case: Value = serde_json::from_str(&line).expect("case json");
        if let Some(steps) = case.as_array() {
            n += run_behaviour(steps, li, sh, seed);
            continue;
        }
        let call = case["call"].as_str().unwrap_or("").to_string();
        let args = &case["args"];
        let rargs = &case["rargs"];
        let mut rng = Rng::new(seed, 0x5e55_0000 + li as u64);
        let mut s = String::new();
        let _ = write!(s, "\"ev\":\"replay\",\"case\":{line},\"obs\":{{");
        let w = geti(args, "w") as usize;
        let h = geti(args, "h") as usize;
        let mut rngc = rng.clone();
        let first: Result<Img, String> = match call.as_str() {
            "NewYuv" => guarded(|| new_yuv(&cfg_of(&args["cfg"]), geti(&args["cfg"], "st"), w, h, &mut rng)),
            "NewRgb" => guarded(|| Rgb::new(rand_unit(&mut rng, w * h), w, h, tc(geti(args, "tc") as u8), cp(geti(args, "cp") as u8)).map(Img::Rgb).map_err(|_| "ResolutionMismatch".to_string())),
            "NewLin" => guarded(|| LinearRgb::new(rand_unit(&mut rng, w * h), w, h).map(Img::Lin).map_err(|_| "ResolutionMismatch".to_string())),
            "NewXyb" => guarded(|| Xyb::new(rand_unit(&mut rng, w * h), w, h).map(Img::Xyb).map_err(|_| "ResolutionMismatch".to_string())),
            "NewHsl" => guarded(|| Hsl::new(rand_unit(&mut rng, w * h), w, h).map(Img::Hsl).map_err(|_| "ResolutionMismatch".to_string())),
            _ => match build_pre(&case["pre"], &mut rng) {
                Err(e) => Err(format!("pre:{e}")),
                Ok(src) => {
                    let src2 = clone_img(&src);
                    let a = guarded(|| convert(&call, src, args));
                    // numeric witness of truthful labels: the same call with the resolved arguments
                    if args != rargs {
                        let b = guarded(|| convert(&call, src2, rargs));
                        match (&a, &b) {
                            (Ok(x), Ok(y)) => {
                                let _ = write!(s, "\"resB\":\"ok\",\"postB\":{},\"maxdiff\":{},", post_json(y), maxdiff(x, y));
                            }
                            (_, Err(e)) => {
                                let _ = write!(s, "\"resB\":\"{e}\",");
                            }
                            (_, Ok(y)) => {
                                let _ = write!(s, "\"resB\":\"ok\",\"postB\":{},", post_json(y));
                            }
                        }
                    }
                    a
                }
            },
        };
        let _ = rngc.next();
        match &first {
            Ok(i) => {
                let _ = write!(s, "\"res\":\"ok\",\"post\":{}}}", post_json(i));
            }
            Err(e) => {
                let _ = write!(s, "\"res\":\"{e}\"}}");
            }
        }
        sh.emit(&s);
        n += 1;
    }
    std::panic::set_hook(prev);
    serde_json::json!({"cases": n, "calls": n, "distinct": n})
}
