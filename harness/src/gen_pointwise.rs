//! C11: conversions are pointwise, order preserving and layout independent.  For every conversion the whole
//! image result is logged next to the results of converting each pixel as a 1x1 image, a repeat, the same
//! image rebuilt with other (poisoned) padding, and the borrowed source before/after.  All comparisons are
//! made by TLC on the logged bit patterns / codes.

use std::fmt::Write as _;

use yuvxyb::{CastFromPrimitive, Frame, Hsl, LinearRgb, Pixel, Plane, Rgb, Xyb, Yuv};

use crate::frames::{make_plane, Cfg, PlaneGeom};
use crate::util::{cp, list, px_bits, tc, Rng, Shards, CP_SUP, MC_STD, TC_SUP};
use crate::Opts;

type Px = Vec<[f32; 3]>;

fn bits(s: &mut String, key: &str, d: &[[f32; 3]]) {
    let _ = write!(s, ",\"{key}\":");
    list(s, d, px_bits);
}
fn codes(s: &mut String, key: &str, d: &[Vec<u16>; 3]) {
    let _ = write!(s, ",\"{key}\":[");
    for k in 0..3 {
        if k > 0 {
            s.push(',');
        }
        list(s, &d[k], |o, v| {
            let _ = write!(o, "{v}");
        });
    }
    s.push(']');
}

fn build_yuv<T: Pixel>(planes: &[Vec<u16>; 3], w: usize, h: usize, c: &Cfg, pads: [(usize, usize); 3], poison: Option<u16>) -> Yuv<T> {
    try_build_yuv::<T>(planes, w, h, c, pads, poison).expect("well-formed frame (already accepted in another layout)")
}
fn try_build_yuv<T: Pixel>(planes: &[Vec<u16>; 3], w: usize, h: usize, c: &Cfg, pads: [(usize, usize); 3], poison: Option<u16>) -> Result<Yuv<T>, String> {
    let (cw, ch) = (w >> c.ssx, h >> c.ssy);
    let dims = [(w, h), (cw, ch), (cw, ch)];
    let mk = |k: usize| -> Plane<T> {
        let g = PlaneGeom { w: dims[k].0, h: dims[k].1, xdec: if k == 0 { 0 } else { c.ssx as usize }, ydec: if k == 0 { 0 } else { c.ssy as usize }, xpad: pads[k].0, ypad: pads[k].1 };
        make_plane::<T>(g, poison, |x, y| planes[k][y * dims[k].0 + x])
    };
    match crate::util::guard(|| Yuv::new(Frame { planes: [mk(0), mk(1), mk(2)] }, c.yuv_config())) {
        Ok(Ok(y)) => Ok(y),
        Ok(Err(e)) => Err(format!("ctor:{}", crate::frames::err_name_yuv(e))),
        Err(_) => Err("ctor:panic".to_string()),
    }
}
fn read_yuv<T: Pixel>(y: &Yuv<T>) -> [Vec<u16>; 3] {
    let mut out = [Vec::new(), Vec::new(), Vec::new()];
    for k in 0..3 {
        let p = &y.data()[k];
        for yy in 0..p.cfg.height {
            for xx in 0..p.cfg.width {
                out[k].push(u16::cast_from(p.p(xx, yy)));
            }
        }
    }
    out
}

/// float result of a conversion from a YUV image
fn from_yuv<T: Pixel>(call: &str, y: &Yuv<T>) -> Result<(Px, usize, usize), String> {
    crate::util::guard_s(|| from_yuv_inner(call, y))
}
fn from_yuv_inner<T: Pixel>(call: &str, y: &Yuv<T>) -> Result<(Px, usize, usize), String> {
    let e = |x: yuvxyb::ConversionError| crate::frames::err_name_conv(x).to_string();
    match call {
        "YuvToRgb" => Rgb::try_from(y).map(|r| (r.data().to_vec(), r.width(), r.height())).map_err(e),
        "YuvToLin" => LinearRgb::try_from(y).map(|r| (r.data().to_vec(), r.width(), r.height())).map_err(e),
        _ => Xyb::try_from(y).map(|r| (r.data().to_vec(), r.width(), r.height())).map_err(e),
    }
}

fn from_yuv_owned<T: Pixel>(call: &str, y: &Yuv<T>) -> Result<(Px, usize, usize), String> {
    crate::util::guard_s(|| {
        let e = |x: yuvxyb::ConversionError| crate::frames::err_name_conv(x).to_string();
        let y = y.clone();
        match call {
            "YuvToRgb" => Rgb::try_from(y).map(|r| (r.data().to_vec(), r.width(), r.height())).map_err(e),
            "YuvToLin" => LinearRgb::try_from(y).map(|r| (r.data().to_vec(), r.width(), r.height())).map_err(e),
            _ => Xyb::try_from(y).map(|r| (r.data().to_vec(), r.width(), r.height())).map_err(e),
        }
    })
}

fn yuv_source_event<T: Pixel>(sh: &mut Shards, call: &str, c: &Cfg, st: u8, w: usize, h: usize, rng: &mut Rng) {
    let maxc = (1u64 << c.n) - 1;
    let (cw, ch) = (w >> c.ssx, h >> c.ssy);
    let planes: [Vec<u16>; 3] = [
        (0..w * h).map(|_| rng.below(maxc + 1) as u16).collect(),
        (0..cw * ch).map(|_| rng.below(maxc + 1) as u16).collect(),
        (0..cw * ch).map(|_| rng.below(maxc + 1) as u16).collect(),
    ];
    let pads_a = [(0usize, 0usize); 3];
    // plane layouts: random paddings, and (every other image) one of the special shapes: horizontal-only, vertical-only,
    // one plane padded and the others tight
    const LAYOUTS: [[(usize, usize); 3]; 6] = [
        [(17, 0), (0, 0), (5, 0)],
        [(0, 3), (0, 0), (0, 1)],
        [(0, 0), (0, 0), (16, 0)],
        [(0, 0), (16, 0), (0, 0)],
        [(1, 0), (0, 2), (33, 0)],
        [(0, 0), (7, 7), (0, 0)],
    ];
    let pads_b = if rng.below(2) == 0 {
        LAYOUTS[rng.below(6) as usize]
    } else {
        [(rng.below(33) as usize, rng.below(33) as usize), (rng.below(33) as usize, rng.below(33) as usize), (rng.below(33) as usize, rng.below(33) as usize)]
    };
    let mut s = String::new();
    let _ = write!(s, "\"ev\":\"pw\",\"src\":\"yuv\",\"call\":\"{call}\",\"cfg\":{},\"st\":{st},\"w\":{w},\"h\":{h},\"pads\":{:?}", c.json(), pads_b.iter().map(|p| vec![p.0, p.1]).collect::<Vec<_>>());
    let built = try_build_yuv::<T>(&planes, w, h, c, pads_a, None).and_then(|a| try_build_yuv::<T>(&planes, w, h, c, pads_b, Some((maxc as u16).min(if st == 8 { 255 } else { maxc as u16 }))).map(|b| (a, b)));
    let (ya, yb) = match built {
        Ok(x) => x,
        Err(e) => {
            // a well-formed frame was rejected by the constructor in one of the two layouts
            let _ = write!(s, ",\"res\":\"{e}\"");
            sh.emit(&s);
            return;
        }
    };
    let before = read_yuv(&ya);
    match from_yuv(call, &ya) {
        Err(e) => {
            let _ = write!(s, ",\"res\":\"{e}\"");
        }
        Ok((out, wo, ho)) => {
            let _ = write!(s, ",\"res\":\"ok\",\"wo\":{wo},\"ho\":{ho}");
            bits(&mut s, "out", &out);
            // the repeat goes through the impl that takes the source BY VALUE (TryFrom<Yuv<T>>): both impls are "the conversion"
            if let Ok((again, _, _)) = from_yuv_owned(call, &ya) {
                bits(&mut s, "again", &again);
            }
            if let Ok((repad, _, _)) = from_yuv(call, &yb) {
                bits(&mut s, "repad", &repad);
            }
            // third layout: tightly packed luma (Plane::from_slice, stride == width) with padded chroma planes
            {
                let px3: Vec<[u16; 3]> = (0..w * h).map(|i| [planes[0][i], planes[1][((i / w) >> c.ssy) * cw + ((i % w) >> c.ssx)], planes[2][((i / w) >> c.ssy) * cw + ((i % w) >> c.ssx)]]).collect();
                if let Ok(yc) = Yuv::<T>::new(crate::frames::frame_packed_luma::<T>(&px3, w, h, c.ssx, c.ssy, pads_b), c.yuv_config()) {
                    if let Ok((packed, _, _)) = from_yuv(call, &yc) {
                        bits(&mut s, "packed", &packed);
                    }
                }
            }
            // each pixel as a 1x1 4:4:4 image of the samples it may depend on
            let c1 = Cfg { ssx: 0, ssy: 0, ..*c };
            let mut one: Px = Vec::with_capacity(w * h);
            for y in 0..h {
                for x in 0..w {
                    let ci = (y >> c.ssy) * cw + (x >> c.ssx);
                    let p1 = [vec![planes[0][y * w + x]], vec![planes[1][ci]], vec![planes[2][ci]]];
                    let y1 = build_yuv::<T>(&p1, 1, 1, &c1, [(0, 0); 3], None);
                    match from_yuv(call, &y1) {
                        Ok((o1, _, _)) => one.push(o1[0]),
                        Err(_) => one.push([f32::NAN; 3]),
                    }
                }
            }
            bits(&mut s, "one", &one);
            codes(&mut s, "src_before", &before);
            codes(&mut s, "src_after", &read_yuv(&ya));
        }
    }
    sh.emit(&s);
}

/// conversions between the float kinds (and into Rgb): closures over pixel vectors
fn float_conv(call: &str, c: &Cfg, px: &[[f32; 3]], w: usize, h: usize) -> Result<(Px, usize, usize), String> {
    crate::util::guard_s(|| float_conv_inner(call, c, px, w, h))
}
fn float_conv_inner(call: &str, c: &Cfg, px: &[[f32; 3]], w: usize, h: usize) -> Result<(Px, usize, usize), String> {
    let e = |x: yuvxyb::ConversionError| crate::frames::err_name_conv(x).to_string();
    let v = px.to_vec();
    match call {
        "RgbToLin" => LinearRgb::try_from(crate::srcs::rgb(&v, w, h, tc(c.tc), cp(c.cp))?).map(|r| (r.data().to_vec(), r.width(), r.height())).map_err(e),
        "RgbToXyb" => Xyb::try_from(crate::srcs::rgb(&v, w, h, tc(c.tc), cp(c.cp))?).map(|r| (r.data().to_vec(), r.width(), r.height())).map_err(e),
        "LinToRgb" => Rgb::try_from((crate::srcs::lin(&v, w, h)?, tc(c.tc), cp(c.cp))).map(|r| (r.data().to_vec(), r.width(), r.height())).map_err(e),
        "XybToRgb" => Rgb::try_from((crate::srcs::xyb(&v, w, h)?, tc(c.tc), cp(c.cp))).map(|r| (r.data().to_vec(), r.width(), r.height())).map_err(e),
        "LinToXyb" => Ok(Xyb::from(crate::srcs::lin(&v, w, h)?)).map(|r| (r.data().to_vec(), r.width(), r.height())),
        "XybToLin" => Ok(LinearRgb::from(crate::srcs::xyb(&v, w, h)?)).map(|r| (r.data().to_vec(), r.width(), r.height())),
        "LinToHsl" => Ok(Hsl::from(crate::srcs::lin(&v, w, h)?)).map(|r| (r.data().to_vec(), r.width(), r.height())),
        "HslToLin" => Ok(LinearRgb::from(crate::srcs::hsl(&v, w, h)?)).map(|r| (r.data().to_vec(), r.width(), r.height())),
        _ => Err("bad-call".to_string()),
    }
}

fn to_yuv_conv<T: Pixel>(call: &str, c: &Cfg, px: &[[f32; 3]], w: usize, h: usize) -> Result<Yuv<T>, String> {
    crate::util::guard_s(|| to_yuv_conv_inner::<T>(call, c, px, w, h))
}
fn to_yuv_conv_inner<T: Pixel>(call: &str, c: &Cfg, px: &[[f32; 3]], w: usize, h: usize) -> Result<Yuv<T>, String> {
    let e = |x: yuvxyb::ConversionError| crate::frames::err_name_conv(x).to_string();
    let v = px.to_vec();
    match call {
        "RgbToYuv" => Yuv::<T>::try_from((&crate::srcs::rgb(&v, w, h, tc(c.tc), cp(c.cp))?, c.yuv_config())).map_err(e),
        "LinToYuv" => Yuv::<T>::try_from((crate::srcs::lin(&v, w, h)?, c.yuv_config())).map_err(e),
        _ => Yuv::<T>::try_from((crate::srcs::xyb(&v, w, h)?, c.yuv_config())).map_err(e),
    }
}

fn to_yuv_event<T: Pixel>(sh: &mut Shards, call: &str, c: &Cfg, st: u8, w: usize, h: usize, px: &[[f32; 3]]) {
    let mut s = String::new();
    let _ = write!(s, "\"ev\":\"pw\",\"src\":\"float\",\"dst\":\"yuv\",\"call\":\"{call}\",\"cfg\":{},\"st\":{st},\"w\":{w},\"h\":{h}", c.json());
    match to_yuv_conv::<T>(call, c, px, w, h) {
        Err(e) => {
            let _ = write!(s, ",\"res\":\"{e}\"");
        }
        Ok(y) => {
            let _ = write!(s, ",\"res\":\"ok\",\"wo\":{},\"ho\":{},\"pdims\":[[{},{}],[{},{}],[{},{}]]", y.width(), y.height(), y.data()[0].cfg.width, y.data()[0].cfg.height, y.data()[1].cfg.width, y.data()[1].cfg.height, y.data()[2].cfg.width, y.data()[2].cfg.height);
            codes(&mut s, "out", &read_yuv(&y));
            // the repeat of RgbToYuv goes through the impl that takes the Rgb BY VALUE
            let again = if call == "RgbToYuv" {
                crate::util::guard_s(|| Yuv::<T>::try_from((Rgb::new(px.to_vec(), w, h, tc(c.tc), cp(c.cp)).map_err(|_| "ctor")?, c.yuv_config())).map_err(|x| crate::frames::err_name_conv(x).to_string()))
            } else {
                to_yuv_conv::<T>(call, c, px, w, h)
            };
            if let Ok(y2) = again {
                codes(&mut s, "again", &read_yuv(&y2));
            }
            // each pixel as a 1x1 image, encoded 4:4:4
            let c1 = Cfg { ssx: 0, ssy: 0, ..*c };
            let mut one: Vec<[u16; 3]> = Vec::with_capacity(px.len());
            for p in px {
                match to_yuv_conv::<T>(call, &c1, &[*p], 1, 1) {
                    Ok(y1) => {
                        let r = read_yuv(&y1);
                        one.push([r[0][0], r[1][0], r[2][0]]);
                    }
                    Err(_) => one.push([65535, 65535, 65535]),
                }
            }
            s.push_str(",\"one\":");
            list(&mut s, &one, |o, v| {
                let _ = write!(o, "[{},{},{}]", v[0], v[1], v[2]);
            });
        }
    }
    sh.emit(&s);
}

fn sizes(o: &Opts) -> Vec<(usize, usize)> {
    let mut v = vec![(1, 1), (2, 1), (1, 2), (3, 2), (2, 3), (4, 4), (5, 3), (7, 5), (8, 8), (12, 12), (13, 7), (16, 16), (33, 2), (2, 33), (64, 1), (1, 64), (64, 3), (32, 5), (128, 2), (64, 4)];
    if o.thorough {
        for w in 1..=24 {
            for h in [1usize, 2, 3, 5, 8, 13, 24] {
                v.push((w, h));
            }
        }
        v.push((64, 64));
        v.push((63, 64));
        v.push((64, 33));
    } else {
        v.push((64, 4));
        for w in 1..=6 {
            for h in 1..=6 {
                v.push((w, h));
            }
        }
    }
    v
}

fn comp_events(sh: &mut Shards, c: &Cfg, px: &[[f32; 3]], w: usize, h: usize, rng: &mut Rng) {
    let e = |x: yuvxyb::ConversionError| crate::frames::err_name_conv(x).to_string();
    let (t, p) = (tc(c.tc), cp(c.cp));
    let fl = |s: &mut String, key: &str, r: &Result<Px, String>| match r {
        Ok(d) => {
            let _ = write!(s, ",\"r{key}\":\"ok\"");
            bits(s, key, d);
        }
        Err(x) => {
            let _ = write!(s, ",\"r{key}\":\"{x}\",\"{key}\":[]");
        }
    };
    let yv = |s: &mut String, key: &str, r: &Result<[Vec<u16>; 3], String>| match r {
        Ok(d) => {
            let _ = write!(s, ",\"r{key}\":\"ok\"");
            codes(s, key, d);
        }
        Err(x) => {
            let _ = write!(s, ",\"r{key}\":\"{x}\",\"{key}\":[]");
        }
    };
    let head = |call: &str| format!("\"ev\":\"comp\",\"call\":\"{call}\",\"cfg\":{},\"w\":{w},\"h\":{h}", c.json());
    let rgb = || Rgb::new(px.to_vec(), w, h, t, p).map_err(|_| "ctor".to_string());
    let lin = || LinearRgb::new(px.to_vec(), w, h).map_err(|_| "ctor".to_string());
    let xyb = || lin().map(Xyb::from);
    // RgbToXyb = RgbToLin ; LinToXyb
    let mut s = head("RgbToXyb");
    fl(&mut s, "direct", &crate::util::guard_s(|| Xyb::try_from(rgb()?).map(|x| x.data().to_vec()).map_err(e)));
    fl(&mut s, "chain", &crate::util::guard_s(|| LinearRgb::try_from(rgb()?).map(|l| Xyb::from(l).data().to_vec()).map_err(e)));
    sh.emit(&s);
    // XybToRgb = XybToLin ; LinToRgb
    let mut s = head("XybToRgb");
    fl(&mut s, "direct", &crate::util::guard_s(|| Rgb::try_from((xyb()?, t, p)).map(|x| x.data().to_vec()).map_err(e)));
    fl(&mut s, "chain", &crate::util::guard_s(|| Rgb::try_from((LinearRgb::from(xyb()?), t, p)).map(|x| x.data().to_vec()).map_err(e)));
    sh.emit(&s);
    // LinToYuv = LinToRgb ; RgbToYuv      XybToYuv = XybToLin ; LinToYuv
    macro_rules! enc {
        ($t:ty) => {{
            let mut s = head("LinToYuv");
            yv(&mut s, "direct", &crate::util::guard_s(|| Yuv::<$t>::try_from((lin()?, c.yuv_config())).map(|y| read_yuv(&y)).map_err(e)));
            yv(&mut s, "chain", &crate::util::guard_s(|| Yuv::<$t>::try_from((&Rgb::try_from((lin()?, t, p)).map_err(e)?, c.yuv_config())).map(|y| read_yuv(&y)).map_err(e)));
            sh.emit(&s);
            let mut s = head("XybToYuv");
            yv(&mut s, "direct", &crate::util::guard_s(|| Yuv::<$t>::try_from((xyb()?, c.yuv_config())).map(|y| read_yuv(&y)).map_err(e)));
            yv(&mut s, "chain", &crate::util::guard_s(|| Yuv::<$t>::try_from((LinearRgb::from(xyb()?), c.yuv_config())).map(|y| read_yuv(&y)).map_err(e)));
            sh.emit(&s);
            // YuvToLin = YuvToRgb ; RgbToLin      YuvToXyb = YuvToLin ; LinToXyb
            let maxc = (1u64 << c.n) - 1;
            let (cw, ch) = (w >> c.ssx, h >> c.ssy);
            let planes: [Vec<u16>; 3] = [(0..w * h).map(|_| rng.below(maxc + 1) as u16).collect(), (0..cw * ch).map(|_| rng.below(maxc + 1) as u16).collect(), (0..cw * ch).map(|_| rng.below(maxc + 1) as u16).collect()];
            let yuv = || try_build_yuv::<$t>(&planes, w, h, c, [(0, 0); 3], None);
            let mut s = head("YuvToLin");
            fl(&mut s, "direct", &crate::util::guard_s(|| LinearRgb::try_from(&yuv()?).map(|x| x.data().to_vec()).map_err(e)));
            fl(&mut s, "chain", &crate::util::guard_s(|| LinearRgb::try_from(Rgb::try_from(&yuv()?).map_err(e)?).map(|x| x.data().to_vec()).map_err(e)));
            sh.emit(&s);
            let mut s = head("YuvToXyb");
            fl(&mut s, "direct", &crate::util::guard_s(|| Xyb::try_from(&yuv()?).map(|x| x.data().to_vec()).map_err(e)));
            fl(&mut s, "chain", &crate::util::guard_s(|| LinearRgb::try_from(&yuv()?).map(|l| Xyb::from(l).data().to_vec()).map_err(e)));
            sh.emit(&s);
        }};
    }
    if c.n == 8 {
        enc!(u8)
    } else {
        enc!(u16)
    }
}

/// C06 through the COMPOSITE entry points (Rgb <-> Xyb directly): every supported primaries set x four transfers; the
/// direct conversion is logged next to the same chain of stages issued by hand, as bits (drift) and as decimals (judged:
/// the composite must agree with its stages within the stages' budgets, or the primaries / transfer stage inside it is
/// not the one C06 / C03 describe)
pub fn gen_comp06(sh: &mut Shards, o: &Opts) -> serde_json::Value {
    let mut rng = Rng::new(o.seed, 0x0606_c0);
    let mut n = 0u64;
    let e = |x: yuvxyb::ConversionError| crate::frames::err_name_conv(x).to_string();
    for &p in CP_SUP.iter() {
        for &t in &[13u8, 1, 16, 8, 4] {
            for rep in 0..(if o.thorough { 6 } else { 2 }) {
                let (w, h) = (4usize, 2 + rep % 2);
                let px: Px = (0..w * h).map(|i| if i == 0 { [1.0, 1.0, 1.0] } else { [rng.unit() as f32, rng.unit() as f32, rng.unit() as f32] }).collect();
                let (tt, pp) = (tc(t), cp(p));
                let rgb = || Rgb::new(px.clone(), w, h, tt, pp).map_err(|_| "ctor".to_string());
                let xyb = || LinearRgb::new(px.clone(), w, h).map(Xyb::from).map_err(|_| "ctor".to_string());
                let both = |s: &mut String, key: &str, r: &Result<Px, String>| match r {
                    Ok(d) => {
                        let _ = write!(s, ",\"r{key}\":\"ok\"");
                        bits(s, key, d);
                        let _ = write!(s, ",\"{key}f\":");
                        list(s, d, crate::util::px_fx);
                    }
                    Err(x) => {
                        let _ = write!(s, ",\"r{key}\":\"{x}\",\"{key}\":[],\"{key}f\":[]");
                    }
                };
                let mut s = format!("\"ev\":\"comp\",\"call\":\"RgbToXyb\",\"tc\":{t},\"cp\":{p},\"w\":{w},\"h\":{h}");
                both(&mut s, "direct", &crate::util::guard_s(|| Xyb::try_from(rgb()?).map(|x| x.data().to_vec()).map_err(e)));
                both(&mut s, "chain", &crate::util::guard_s(|| LinearRgb::try_from(rgb()?).map(|l| Xyb::from(l).data().to_vec()).map_err(e)));
                sh.emit(&s);
                let mut s = format!("\"ev\":\"comp\",\"call\":\"XybToRgb\",\"tc\":{t},\"cp\":{p},\"w\":{w},\"h\":{h}");
                both(&mut s, "direct", &crate::util::guard_s(|| Rgb::try_from((xyb()?, tt, pp)).map(|x| x.data().to_vec()).map_err(e)));
                both(&mut s, "chain", &crate::util::guard_s(|| Rgb::try_from((LinearRgb::from(xyb()?), tt, pp)).map(|x| x.data().to_vec()).map_err(e)));
                sh.emit(&s);
                n += 2;
            }
        }
    }
    serde_json::json!({"composites": n, "distinct": n})
}

pub fn gen_c11(sh: &mut Shards, o: &Opts) -> serde_json::Value {
    let mut rng = Rng::new(o.seed, 0x1111);
    let mut n = 0u64;
    let mut pixels = 0u64;
    let subs = [(0u8, 0u8), (1, 0), (1, 1), (0, 1), (2, 0), (2, 2)];
    let mut k = 0usize;
    for (w, h) in sizes(o) {
        for &(sx, sy) in &subs {
            k += 1;
            // the other configuration fields are drawn independently (modular counters sharing a factor with the period of
            // the subsampling list would tie e.g. 4:2:0 to limited range and to three of the nine depths for ever)
            let c = Cfg { mc: MC_STD[rng.below(7) as usize], tc: TC_SUP[rng.below(14) as usize], cp: CP_SUP[rng.below(11) as usize], full: rng.below(2) == 0, n: 8 + rng.below(9) as u8, ssx: sx, ssy: sy };
            let div = w % (1 << sx) == 0 && h % (1 << sy) == 0;
            // sources in YUV need a well-formed frame; encoders are only asked for sizes that can exist
            if div {
                for call in ["YuvToRgb", "YuvToLin", "YuvToXyb"] {
                    if c.n == 8 && k % 2 == 1 {
                        yuv_source_event::<u8>(sh, call, &c, 8, w, h, &mut rng);
                    } else {
                        yuv_source_event::<u16>(sh, call, &c, 16, w, h, &mut rng);
                    }
                    if w % 32 == 0 && call == "YuvToRgb" {
                        // widths that make a plane exactly contiguous (stride == width): both sample types
                        let c8 = Cfg { n: 8, ..c };
                        yuv_source_event::<u8>(sh, call, &c8, 8, w, h, &mut rng);
                        yuv_source_event::<u16>(sh, call, &c, 16, w, h, &mut rng);
                    }
                    n += 1;
                    pixels += (w * h) as u64;
                }
                let px: Px = (0..w * h).map(|_| [rng.unit() as f32, rng.unit() as f32, rng.unit() as f32]).collect();
                // the same size again as RUNS of a few colours (run lengths 1..4, so runs start off the chroma grid): an encoder
                // that skips work for a pixel equal to its predecessor must still refresh everything it carries along
                let palette: [[f32; 3]; 4] = [[rng.unit() as f32, rng.unit() as f32, rng.unit() as f32], [rng.unit() as f32, rng.unit() as f32, rng.unit() as f32], [1.0, 1.0, 0.0], [0.0, 0.25, 1.0]];
                let mut runs: Px = Vec::with_capacity(w * h);
                while runs.len() < w * h {
                    let col = palette[rng.below(4) as usize];
                    for _ in 0..=rng.below(4) {
                        runs.push(col);
                    }
                }
                runs.truncate(w * h);
                if w * h > 1 {
                    for call in ["RgbToYuv", "LinToYuv"] {
                        if c.n == 8 && k % 2 == 1 {
                            to_yuv_event::<u8>(sh, call, &c, 8, w, h, &runs);
                        } else {
                            to_yuv_event::<u16>(sh, call, &c, 16, w, h, &runs);
                        }
                        n += 1;
                    }
                }
                // a FAILED call in the history: an encode to subsampled YUV of a size that cannot be subsampled (it is rejected -
                // by a panic on the pinned tree, known finding F4b) right before the judged encodes.  Whatever the failed
                // call left behind (scratch buffers, thread-local state) must not leak into the next result.
                if k % 4 == 0 {
                    let (ow, oh) = (w | 1, h | 1);
                    let junk: Px = (0..ow * oh).map(|_| [rng.unit() as f32, rng.unit() as f32, rng.unit() as f32]).collect();
                    let cj = Cfg { ssx: 1, ssy: 1, ..c };
                    let _ = to_yuv_conv::<u16>("RgbToYuv", &Cfg { n: c.n.max(9), ..cj }, &junk, ow, oh);
                }
                for call in ["RgbToYuv", "LinToYuv", "XybToYuv"] {
                    let src: Px = if call == "XybToYuv" { Xyb::from(LinearRgb::new(px.clone(), w, h).unwrap()).data().to_vec() } else { px.clone() };
                    if c.n == 8 && k % 2 == 1 {
                        to_yuv_event::<u8>(sh, call, &c, 8, w, h, &src);
                    } else {
                        to_yuv_event::<u16>(sh, call, &c, 16, w, h, &src);
                    }
                    n += 1;
                    pixels += (w * h) as u64;
                }
            }
        }
        // float <-> float conversions (no subsampling involved): once per size, rotating metadata
        let c = Cfg { mc: 1, tc: TC_SUP[(k * 5) % 14], cp: CP_SUP[(k * 3) % 11], full: false, n: 8, ssx: 0, ssy: 0 };
        let px: Px = (0..w * h).map(|_| [rng.unit() as f32, rng.unit() as f32, rng.unit() as f32]).collect();
        for call in ["RgbToLin", "RgbToXyb", "LinToRgb", "XybToRgb", "LinToXyb", "XybToLin", "LinToHsl", "HslToLin"] {
            let src: Px = match call {
                "XybToRgb" | "XybToLin" => Xyb::from(LinearRgb::new(px.clone(), w, h).unwrap()).data().to_vec(),
                "HslToLin" => Hsl::from(LinearRgb::new(px.clone(), w, h).unwrap()).data().to_vec(),
                _ => px.clone(),
            };
            let mut s = String::new();
            let _ = write!(s, "\"ev\":\"pw\",\"src\":\"float\",\"dst\":\"float\",\"call\":\"{call}\",\"cfg\":{},\"w\":{w},\"h\":{h}", c.json());
            match float_conv(call, &c, &src, w, h) {
                Err(e) => {
                    let _ = write!(s, ",\"res\":\"{e}\"");
                }
                Ok((out, wo, ho)) => {
                    let _ = write!(s, ",\"res\":\"ok\",\"wo\":{wo},\"ho\":{ho}");
                    bits(&mut s, "out", &out);
                    if let Ok((again, _, _)) = float_conv(call, &c, &src, w, h) {
                        bits(&mut s, "again", &again);
                    }
                    let one: Px = src.iter().map(|p| float_conv(call, &c, &[*p], 1, 1).map(|r| r.0[0]).unwrap_or([f32::NAN; 3])).collect();
                    bits(&mut s, "one", &one);
                }
            }
            sh.emit(&s);
            n += 1;
            pixels += (w * h) as u64;
            // ECHO image of the same size: [p, f(p), q, f(q), ...] - every second pixel's INPUT is its left neighbour's OUTPUT.
            // An in-place loop that compares a pixel with what it has just written next to it ("same as the previous pixel:
            // copy the result") treats the echo as already converted; random neighbours never coincide like that.
            // (only where the echoed value is inside the conversion's ordinary domain: no NaN-producing inputs - a NaN's payload
            // bits are not part of any property)
            if w * h >= 2 && call != "XybToRgb" {
                let mut echo: Px = Vec::with_capacity(w * h);
                for p in &src {
                    if echo.len() + 2 > w * h {
                        break;
                    }
                    echo.push(*p);
                    let q = float_conv(call, &c, &[*p], 1, 1).map(|r| r.0[0]).unwrap_or(*p);
                    let ok = if matches!(call, "RgbToXyb" | "RgbToLin" | "LinToRgb") { q.iter().all(|x| (0.0..=1.0).contains(x)) } else { q.iter().all(|x| x.is_finite()) };
                    echo.push(if ok { q } else { *p });
                }
                while echo.len() < w * h {
                    echo.push(src[0]);
                }
                let mut s = String::new();
                let _ = write!(s, "\"ev\":\"pw\",\"echo\":1,\"src\":\"float\",\"dst\":\"float\",\"call\":\"{call}\",\"cfg\":{},\"w\":{w},\"h\":{h}", c.json());
                match float_conv(call, &c, &echo, w, h) {
                    Err(e) => {
                        let _ = write!(s, ",\"res\":\"{e}\"");
                    }
                    Ok((out, wo, ho)) => {
                        let _ = write!(s, ",\"res\":\"ok\",\"wo\":{wo},\"ho\":{ho}");
                        bits(&mut s, "out", &out);
                        if let Ok((again, _, _)) = float_conv(call, &c, &echo, w, h) {
                            bits(&mut s, "again", &again);
                        }
                        let one: Px = echo.iter().map(|p| float_conv(call, &c, &[*p], 1, 1).map(|r| r.0[0]).unwrap_or([f32::NAN; 3])).collect();
                        bits(&mut s, "one", &one);
                    }
                }
                sh.emit(&s);
                n += 1;
                pixels += (w * h) as u64;
            }
        }
    }
    // ROUNDING BOUNDARIES: pixels whose scaled luma / chroma lies within a few f32 steps of a code boundary k + 0.5, walked
    // float by float (the blue channel moves in ulps: the luma then passes through every representable value next to the
    // boundary, including the largest float below 0.5 where `(v + 0.5) as u16` and `v.round()` part ways).  Two rounding
    // sites that agree everywhere else - a block kernel and the row tail, a wide path and the 1x1 path - differ exactly
    // here, and the position of a pixel in its row then decides its code.  Widths 27 (three blocks of 8 + tail) and 8.
    for n_bits in 8u8..=16 {
        for full in [true, false] {
            let c = Cfg { mc: MC_STD[rng.below(7) as usize], tc: TC_SUP[rng.below(14) as usize], cp: CP_SUP[rng.below(11) as usize], full, n: n_bits, ssx: 0, ssy: 0 };
            let kk = f64::from(1u32 << (n_bits - 8));
            let (scale, off) = if full { (f64::from((1u32 << n_bits) - 1), 0.0) } else { (219.0 * kk, 16.0 * kk) };
            let mut px: Px = Vec::new();
            for code in [off, off + 1.0, off + 2.0, off + 7.0] {
                let t = ((code + 0.5 - off) / scale) as f32;
                for j in -40i32..=40 {
                    let b = f32::from_bits((t.to_bits() as i32 + j) as u32);
                    px.push([t, t, b]);
                    if j.abs() <= 8 {
                        px.push([b, b, b]);
                        px.push([b, t, t]);
                    }
                }
            }
            for w in [27usize, 8] {
                let h = px.len() / w;
                let cut = &px[..w * h];
                for call in ["RgbToYuv", "LinToYuv"] {
                    let cc = if call == "LinToYuv" { Cfg { tc: 8, cp: 1, ..c } } else { c };
                    to_yuv_event::<u16>(sh, call, &cc, 16, w, h, cut);
                    if n_bits == 8 {
                        to_yuv_event::<u8>(sh, call, &cc, 8, w, h, cut);
                    }
                    n += 1;
                    pixels += (w * h) as u64;
                }
            }
        }
    }
    // composite conversions against the chain of single stages they are specified as (Yuvxyb.tla: Then(stage, stage)):
    // both outcomes and both results are logged; TLC compares them bit for bit.  Not one of the listed properties - a
    // difference is reported as SPEC-DRIFT, never as a violation.
    for k in 0..(if o.thorough { 600usize } else { 120 }) {
        let (w, h) = (2 + 2 * (k % 5), 2 + 2 * ((k / 5) % 3));
        let (sx, sy) = subs[k % 6];
        let c = Cfg { mc: MC_STD[k % 7], tc: TC_SUP[(k * 5 + 1) % 14], cp: CP_SUP[(k * 3 + 2) % 11], full: k % 2 == 0, n: 8 + (k % 9) as u8, ssx: if w % 4 == 0 { sx } else { sx.min(1) }, ssy: if h % 4 == 0 { sy } else { sy.min(1) } };
        let px: Px = (0..w * h).map(|_| [rng.unit() as f32, rng.unit() as f32, rng.unit() as f32]).collect();
        comp_events(sh, &c, &px, w, h, &mut rng);
        n += 6;
    }
    // large frames: the whole-image result at probed positions against the 1x1 conversions of those pixels, and a repeat
    for (k, call) in ["YuvToRgb", "YuvToXyb", "RgbToLin", "LinToRgb", "LinToXyb", "XybToLin", "LinToHsl"].iter().enumerate() {
        let (w, h) = (702usize, 524usize);
        let c = Cfg { mc: MC_STD[k % 7], tc: TC_SUP[(k * 5 + 3) % 14], cp: CP_SUP[(k * 3 + 1) % 11], full: k % 2 == 0, n: 10, ssx: 1, ssy: 1 };
        let idx = crate::util::probe_indices(w * h, w, &mut rng);
        let mut s = String::new();
        if call.starts_with("Yuv") {
            let (cw, ch) = (w >> 1, h >> 1);
            let planes: [Vec<u16>; 3] = [(0..w * h).map(|_| rng.below(1024) as u16).collect(), (0..cw * ch).map(|_| rng.below(1024) as u16).collect(), (0..cw * ch).map(|_| rng.below(1024) as u16).collect()];
            let ya = build_yuv::<u16>(&planes, w, h, &c, [(0, 0), (5, 1), (0, 0)], None);
            let _ = write!(s, "\"ev\":\"pw\",\"probe\":1,\"src\":\"yuvbig\",\"call\":\"{call}\",\"cfg\":{},\"st\":16,\"w\":{w},\"h\":{h}", c.json());
            match (from_yuv(call, &ya), from_yuv(call, &ya)) {
                (Ok((out, wo, ho)), Ok((again, _, _))) if out.len() == w * h => {
                    let _ = write!(s, ",\"res\":\"ok\",\"wo\":{wo},\"ho\":{ho}");
                    let sel = |v: &Px| -> Px { idx.iter().map(|&i| v[i]).collect() };
                    bits(&mut s, "out", &sel(&out));
                    bits(&mut s, "again", &sel(&again));
                    let c1 = Cfg { ssx: 0, ssy: 0, ..c };
                    let one: Px = idx
                        .iter()
                        .map(|&i| {
                            let (x, y) = (i % w, i / w);
                            let ci = (y >> 1) * cw + (x >> 1);
                            let p1 = [vec![planes[0][i]], vec![planes[1][ci]], vec![planes[2][ci]]];
                            from_yuv(call, &build_yuv::<u16>(&p1, 1, 1, &c1, [(0, 0); 3], None)).map(|r| r.0[0]).unwrap_or([f32::NAN; 3])
                        })
                        .collect();
                    bits(&mut s, "one", &one);
                }
                (Err(e), _) | (_, Err(e)) => {
                    let _ = write!(s, ",\"res\":\"{e}\"");
                }
                _ => s.push_str(",\"res\":\"shape\""),
            }
        } else {
            let base: Px = (0..w * h).map(|_| [rng.unit() as f32, rng.unit() as f32, rng.unit() as f32]).collect();
            let src: Px = if call.starts_with("Xyb") { Xyb::from(LinearRgb::new(base, w, h).unwrap()).data().to_vec() } else { base };
            let _ = write!(s, "\"ev\":\"pw\",\"probe\":1,\"src\":\"float\",\"dst\":\"float\",\"call\":\"{call}\",\"cfg\":{},\"w\":{w},\"h\":{h}", c.json());
            match (float_conv(call, &c, &src, w, h), float_conv(call, &c, &src, w, h)) {
                (Ok((out, wo, ho)), Ok((again, _, _))) if out.len() == w * h => {
                    let _ = write!(s, ",\"res\":\"ok\",\"wo\":{wo},\"ho\":{ho}");
                    let sel = |v: &Px| -> Px { idx.iter().map(|&i| v[i]).collect() };
                    bits(&mut s, "out", &sel(&out));
                    bits(&mut s, "again", &sel(&again));
                    let one: Px = idx.iter().map(|&i| float_conv(call, &c, &[src[i]], 1, 1).map(|r| r.0[0]).unwrap_or([f32::NAN; 3])).collect();
                    bits(&mut s, "one", &one);
                }
                (Err(e), _) | (_, Err(e)) => {
                    let _ = write!(s, ",\"res\":\"{e}\"");
                }
                _ => s.push_str(",\"res\":\"shape\""),
            }
        }
        sh.emit(&s);
        n += 1;
        pixels += (w * h) as u64;
    }
    serde_json::json!({"calls": n, "pixels": pixels, "distinct": n})
}
