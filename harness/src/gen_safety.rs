//! C07 (conversion side) and C13: every conversion with the unsafe-site hooks on; special-value cubes;
//! batches run in child processes so that an abort (std ub_checks in the checked profile, a signal) is
//! data ("abort") and not a tool failure.

use std::fmt::Write as _;
use std::io::{BufRead, BufReader, Write as _};
use std::panic::{catch_unwind, AssertUnwindSafe};
use std::process::{Command, Stdio};

use yuvxyb::{CastFromPrimitive, Frame, Hsl, LinearRgb, Pixel, Rgb, Xyb, Yuv};
use yuvxyb_math::verif_hooks as hooks;

use crate::frames::{frame_from_pixels, Cfg};
use crate::gen_math::SPECIALS;
use crate::util::{cp, fx32, tc, Rng, Shards, CP_SUP, MC_STD, TC_SUP};
use crate::Opts;

fn hooks_json(s: &mut String) {
    let sums = hooks::drain_summaries();
    s.push_str("\"hooks\":[");
    for (i, h) in sums.iter().enumerate() {
        if i > 0 {
            s.push(',');
        }
        let _ = write!(s, "{{\"site\":\"{}\",\"n\":{},\"bad\":{},\"max\":{},\"len\":{},\"fmin\":", h.site, h.count, h.bad, h.max_a.min(2_000_000_000), if h.min_b == u64::MAX { 0 } else { h.min_b.min(2_000_000_000) });
        fx32(s, h.fmin);
        s.push_str(",\"fmax\":");
        fx32(s, h.fmax);
        s.push('}');
    }
    s.push(']');
}

fn specials() -> Vec<f32> {
    SPECIALS.iter().map(|b| f32::from_bits(*b)).collect()
}
/// all triples of special values (26^3 = 17576 pixels)
fn special_cube() -> Vec<[f32; 3]> {
    let sp = specials();
    let mut v = Vec::with_capacity(sp.len().pow(3));
    for &a in &sp {
        for &b in &sp {
            for &c in &sp {
                v.push([a, b, c]);
            }
        }
    }
    v
}
fn random_bits(rng: &mut Rng, n: usize) -> Vec<[f32; 3]> {
    (0..n).map(|_| [f32::from_bits(rng.next() as u32), f32::from_bits(rng.next() as u32), f32::from_bits(rng.next() as u32)]).collect()
}
fn unit_cube(rng: &mut Rng, n: usize) -> Vec<[f32; 3]> {
    let mut v: Vec<[f32; 3]> = (0..n).map(|_| [rng.unit() as f32, rng.unit() as f32, rng.unit() as f32]).collect();
    for a in [0.0f32, 1.0, f32::MIN_POSITIVE, 1e-30, 0.5] {
        for b in [0.0f32, 1.0, 1e-20] {
            v.push([a, b, 1.0 - b]);
        }
    }
    v
}

/// projection of a float result: counts of non-finite components
fn nonfinite(d: &[[f32; 3]]) -> u64 {
    d.iter().map(|p| p.iter().filter(|x| !x.is_finite()).count() as u64).sum()
}

/// projection of a YUV result: largest sample, and whether the constructor accepts the produced frame again
fn yuv_proj<T: Pixel>(y: &Yuv<T>) -> (u32, String) {
    let mut mx = 0u32;
    for p in y.data() {
        for v in p.iter() {
            mx = mx.max(u32::from(u16::cast_from(v)));
        }
    }
    let planes = y.data();
    let f: Frame<T> = Frame { planes: [planes[0].clone(), planes[1].clone(), planes[2].clone()] };
    let rw = match catch_unwind(AssertUnwindSafe(|| Yuv::new(f, y.config()))) {
        Ok(Ok(_)) => "ok".to_string(),
        Ok(Err(e)) => crate::frames::err_name_yuv(e).to_string(),
        Err(_) => "panic".to_string(),
    };
    (mx, rw)
}

fn run_guarded(s: &mut String, f: impl FnOnce(&mut String) -> Result<(), String>) {
    hooks::enable(hooks::Mode::Summary);
    let mut body = String::new();
    let r = catch_unwind(AssertUnwindSafe(|| f(&mut body)));
    match r {
        Ok(Ok(())) => {
            let _ = write!(s, "\"res\":\"ok\",{body}");
        }
        Ok(Err(e)) => {
            let _ = write!(s, "\"res\":\"{e}\",");
        }
        Err(_) => s.push_str("\"res\":\"panic\","),
    }
    hooks_json(s);
    hooks::enable(hooks::Mode::Off);
}

fn enc<T: Pixel>(px: &[[f32; 3]], w: usize, h: usize, c: &Cfg, body: &mut String) -> Result<(), String> {
    let rgb = Rgb::new(px.to_vec(), w, h, tc(c.tc), cp(c.cp)).map_err(|_| "ctor".to_string())?;
    let y = Yuv::<T>::try_from((&rgb, c.yuv_config())).map_err(|e| crate::frames::err_name_conv(e).to_string())?;
    let (mx, rw) = yuv_proj(&y);
    let _ = write!(body, "\"maxcode\":{mx},\"rewrap\":\"{rw}\",\"wo\":{},\"ho\":{},", y.width(), y.height());
    Ok(())
}

/// one batch; prints event bodies (one per line) to `out`
fn worker(batch: &str, o: &Opts, out: &mut dyn FnMut(String)) {
    let prev = std::panic::take_hook();
    std::panic::set_hook(Box::new(|_| {}));
    let parts: Vec<&str> = batch.split(':').collect();
    let mut rng = Rng::new(o.seed, 0x1313_0000 + parts.iter().map(|p| p.len() as u64 * 131 + p.bytes().map(u64::from).sum::<u64>()).sum::<u64>());
    let cube = special_cube();
    let nrand = if o.thorough { 400_000 } else { 12_000 };
    match parts[0] {
        // ---- single stages on the special-value cube + random bit patterns + unit cube
        "tf" => {
            // tf:<tc>:<dir>
            let t: u8 = parts[1].parse().unwrap();
            let dir = parts[2];
            let bigcube: Vec<[f32; 3]> = cube.iter().cycle().take(cube.len() * 21 + 3).copied().collect();
            for (name, px) in [("cube", cube.clone()), ("bits", random_bits(&mut rng, nrand)), ("unit", unit_cube(&mut rng, nrand / 4)), ("bigcube", bigcube), ("unit", unit_cube(&mut rng, 300_007)), ("unit", unit_cube(&mut rng, 70_001))] {
                let mut s = format!("\"ev\":\"total\",\"stage\":\"tf\",\"tc\":{t},\"dir\":\"{dir}\",\"input\":\"{name}\",\"npx\":{},", px.len());
                let w = px.len();
                run_guarded(&mut s, |b| {
                    let d = if dir == "lin" {
                        let rgb = Rgb::new(px.clone(), w, 1, tc(t), cp(1)).map_err(|_| "ctor".to_string())?;
                        LinearRgb::try_from(rgb).map_err(|e| crate::frames::err_name_conv(e).to_string())?.into_data()
                    } else {
                        let lin = LinearRgb::new(px.clone(), w, 1).map_err(|_| "ctor".to_string())?;
                        Rgb::try_from((lin, tc(t), cp(1))).map_err(|e| crate::frames::err_name_conv(e).to_string())?.into_data()
                    };
                    let _ = write!(b, "\"nonfinite\":{},\"len\":{},", nonfinite(&d), d.len());
                    Ok(())
                });
                out(s);
            }
        }
        "prim" => {
            let p: u8 = parts[1].parse().unwrap();
            let dir = parts[2];
            for (name, px) in [("cube", cube.clone()), ("bits", random_bits(&mut rng, nrand / 4)), ("unit", unit_cube(&mut rng, nrand / 4))] {
                let mut s = format!("\"ev\":\"total\",\"stage\":\"prim\",\"cp\":{p},\"dir\":\"{dir}\",\"input\":\"{name}\",\"npx\":{},", px.len());
                let w = px.len();
                run_guarded(&mut s, |b| {
                    let d = if dir == "to709" {
                        let rgb = Rgb::new(px.clone(), w, 1, tc(8), cp(p)).map_err(|_| "ctor".to_string())?;
                        LinearRgb::try_from(rgb).map_err(|e| crate::frames::err_name_conv(e).to_string())?.into_data()
                    } else {
                        let lin = LinearRgb::new(px.clone(), w, 1).map_err(|_| "ctor".to_string())?;
                        Rgb::try_from((lin, tc(8), cp(p))).map_err(|e| crate::frames::err_name_conv(e).to_string())?.into_data()
                    };
                    let _ = write!(b, "\"nonfinite\":{},\"len\":{},", nonfinite(&d), d.len());
                    Ok(())
                });
                out(s);
            }
        }
        "float" => {
            // xyb / hsl stages
            for stage in ["lin2xyb", "xyb2lin", "lin2hsl", "hsl2lin"] {
                let bigcube: Vec<[f32; 3]> = cube.iter().cycle().take(cube.len() * 21 + 3).copied().collect();
                for (name, px) in [("cube", cube.clone()), ("bits", random_bits(&mut rng, nrand)), ("unit", unit_cube(&mut rng, nrand / 4)), ("bigcube", bigcube), ("unit", unit_cube(&mut rng, 300_007)), ("unit", unit_cube(&mut rng, 70_001))] {
                    let mut s = format!("\"ev\":\"total\",\"stage\":\"{stage}\",\"input\":\"{name}\",\"npx\":{},", px.len());
                    let w = px.len();
                    run_guarded(&mut s, |b| {
                        let d = match stage {
                            "lin2xyb" => Xyb::from(LinearRgb::new(px.clone(), w, 1).map_err(|_| "ctor".to_string())?).into_data(),
                            "xyb2lin" => LinearRgb::from(Xyb::new(px.clone(), w, 1).map_err(|_| "ctor".to_string())?).into_data(),
                            "lin2hsl" => Hsl::from(LinearRgb::new(px.clone(), w, 1).map_err(|_| "ctor".to_string())?).into_data(),
                            _ => LinearRgb::from(Hsl::new(px.clone(), w, 1).map_err(|_| "ctor".to_string())?).into_data(),
                        };
                        let _ = write!(b, "\"nonfinite\":{},\"len\":{},", nonfinite(&d), d.len());
                        Ok(())
                    });
                    out(s);
                }
            }
        }
        "enc" => {
            // enc:<mc>: every range, depth, storage on the special cube (4:4:4) and on small subsampled images
            let m: u8 = parts[1].parse().unwrap();
            for full in [false, true] {
                for n in 8u8..=16 {
                    for st in [8u8, 16] {
                        if st == 8 && n != 8 {
                            continue;
                        }
                        let c = Cfg { mc: m, tc: 1, cp: 1, full, n, ssx: 0, ssy: 0 };
                        for (name, px) in [("cube", cube.clone()), ("bits", random_bits(&mut rng, nrand / 16)), ("unit", unit_cube(&mut rng, nrand / 16))] {
                            let mut s = format!("\"ev\":\"total\",\"stage\":\"enc\",\"cfg\":{},\"st\":{st},\"input\":\"{name}\",\"npx\":{},\"w\":{},\"h\":1,", c.json(), px.len(), px.len());
                            let w = px.len();
                            run_guarded(&mut s, |b| if st == 8 { enc::<u8>(&px, w, 1, &c, b) } else { enc::<u16>(&px, w, 1, &c, b) });
                            out(s);
                        }
                    }
                }
            }
        }
        "encbig" => {
            // large frames through the encoder (special values and unit cube), every matrix, 8 and 16 bit
            let bigcube: Vec<[f32; 3]> = cube.iter().cycle().take(701 * 523).copied().collect();
            let bigunit = unit_cube(&mut rng, 701 * 523);
            for &m in MC_STD.iter() {
                for (st, n, full) in [(8u8, 8u8, false), (8, 8, true), (16, 16, false), (16, 16, true), (16, 13, true), (16, 13, false), (16, 10, true), (16, 10, false)] {
                    let c = Cfg { mc: m, tc: 1, cp: 1, full, n, ssx: 0, ssy: 0 };
                    for (name, px) in [("bigcube", &bigcube), ("unit", &bigunit)] {
                        // a large frame, a smaller (still large) one, the large one again (buffers reused across calls must cope), then
                        // widths that make the planes exactly contiguous (multiples of 32 / 64 samples)
                        let sizes: &[(usize, usize)] = if o.thorough { &[(701, 523), (401, 263), (701, 523), (257, 257), (640, 480), (1024, 288)] } else if n == 16 || n == 8 { &[(701, 523), (401, 263), (701, 523), (640, 480)] } else { &[(640, 480), (1024, 288)] };
                        for &(w, h) in sizes {
                            let px = &px[..w * h];
                            let mut s = format!("\"ev\":\"total\",\"stage\":\"enc\",\"cfg\":{},\"st\":{st},\"input\":\"{name}\",\"npx\":{},\"w\":{w},\"h\":{h},\"divisible\":1,", c.json(), px.len());
                            run_guarded(&mut s, |b| if st == 8 { enc::<u8>(px, w, h, &c, b) } else { enc::<u16>(px, w, h, &c, b) });
                            out(s);
                        }
                    }
                }
            }
        }
        "encgeom" => {
            // RGB images of every small size to every subsampling (sizes that are not multiples included), hooks on
            let lim = if o.thorough { 16 } else { 12 };
            for w in 1..=lim {
                for h in 1..=lim {
                    for (sx, sy) in [(0u8, 0u8), (1, 0), (1, 1), (0, 1), (2, 0), (2, 2)] {
                        for st in [8u8, 16] {
                            let c = Cfg { mc: 1, tc: 1, cp: 1, full: false, n: if st == 8 { 8 } else { 10 }, ssx: sx, ssy: sy };
                            let px = unit_cube(&mut rng, 0).into_iter().cycle().take(w * h).collect::<Vec<_>>();
                            let div = u8::from(w % (1usize << sx) == 0 && h % (1usize << sy) == 0);
                            let mut s = format!("\"ev\":\"total\",\"stage\":\"enc\",\"cfg\":{},\"st\":{st},\"input\":\"unit\",\"npx\":{},\"w\":{w},\"h\":{h},\"divisible\":{div},", c.json(), px.len());
                            run_guarded(&mut s, |b| if st == 8 { enc::<u8>(&px, w, h, &c, b) } else { enc::<u16>(&px, w, h, &c, b) });
                            out(s);
                        }
                    }
                }
            }
            // widths around the 64-byte stride alignment (32 / 64 / 128 / 256 samples +- a few), ragged ones included
            let mut around: Vec<(usize, usize)> = vec![(1920, 4), (97, 65), (64, 64), (33, 17)];
            for base in [32usize, 64, 128, 256] {
                for d in [-1i64, 0, 1, 2, 3] {
                    for hh in [1usize, 2, 3, 4] {
                        around.push(((base as i64 + d) as usize, hh));
                    }
                }
            }
            for (w, h) in around {
                for (sx, sy) in [(0u8, 0u8), (1, 1), (2, 2), (1, 0), (2, 0), (0, 1)] {
                    for st in [8u8, 16] {
                        let c = Cfg { mc: 9, tc: 1, cp: 1, full: true, n: if st == 8 { 8 } else { 12 }, ssx: sx, ssy: sy };
                        let px = unit_cube(&mut rng, w * h);
                        let px = &px[..w * h];
                        let div = u8::from(w % (1usize << sx) == 0 && h % (1usize << sy) == 0);
                        let mut s = format!("\"ev\":\"total\",\"stage\":\"enc\",\"cfg\":{},\"st\":{st},\"input\":\"unit\",\"npx\":{},\"w\":{w},\"h\":{h},\"divisible\":{div},", c.json(), px.len());
                        run_guarded(&mut s, |b| if st == 8 { enc::<u8>(px, w, h, &c, b) } else { enc::<u16>(px, w, h, &c, b) });
                        out(s);
                    }
                }
            }
        }
        "decgeom" => {
            // decode of random larger geometries with independent paddings
            let n = if o.thorough { 3000 } else { 300 };
            for i in 0..n {
                let (sx, sy) = [(0u8, 0u8), (1, 0), (1, 1), (0, 1), (2, 0), (2, 2)][i % 6];
                let wraw = if i % 4 == 3 { [31usize, 32, 33, 63, 64, 65, 66, 127, 128, 129, 130, 255, 256, 257][(i / 4) % 14] } else { 1 + rng.below(97) as usize };
                let w = (wraw >> sx).max(1) << sx;
                let h = ((1 + rng.below(65) as usize) >> sy).max(1) << sy;
                let pads = [(rng.below(18) as usize, rng.below(18) as usize), (rng.below(18) as usize, rng.below(18) as usize), (rng.below(18) as usize, rng.below(18) as usize)];
                let st = if i % 2 == 0 { 8u8 } else { 16 };
                let c = Cfg { mc: MC_STD[i % 7], tc: 1, cp: 1, full: i % 3 == 0, n: if st == 8 { 8 } else { 10 }, ssx: sx, ssy: sy };
                let px: Vec<[u16; 3]> = (0..w * h).map(|_| [rng.below(256) as u16, rng.below(256) as u16, rng.below(256) as u16]).collect();
                let mut s = format!("\"ev\":\"total\",\"stage\":\"dec\",\"cfg\":{},\"st\":{st},\"input\":\"codes\",\"npx\":{},\"w\":{w},\"h\":{h},\"pads\":{:?},", c.json(), px.len(), pads.iter().map(|p| vec![p.0, p.1]).collect::<Vec<_>>());
                run_guarded(&mut s, |b| {
                    let d = if st == 8 {
                        let y = Yuv::<u8>::new(frame_from_pixels::<u8>(&px, w, h, sx, sy, pads), c.yuv_config()).map_err(|e| format!("ctor:{}", crate::frames::err_name_yuv(e)))?;
                        Rgb::try_from(&y).map_err(|e| crate::frames::err_name_conv(e).to_string())?.into_data()
                    } else {
                        let y = Yuv::<u16>::new(frame_from_pixels::<u16>(&px, w, h, sx, sy, pads), c.yuv_config()).map_err(|e| format!("ctor:{}", crate::frames::err_name_yuv(e)))?;
                        Rgb::try_from(&y).map_err(|e| crate::frames::err_name_conv(e).to_string())?.into_data()
                    };
                    let _ = write!(b, "\"nonfinite\":{},\"len\":{},", nonfinite(&d), d.len());
                    Ok(())
                });
                out(s);
            }
        }
        "chain" => {
            // composite conversions on the cube for a seeded random sample of full configs
            let k = if o.thorough { 400 } else { 24 };
            for i in 0..k {
                let c = Cfg { mc: MC_STD[rng.below(7) as usize], tc: TC_SUP[rng.below(14) as usize], cp: CP_SUP[rng.below(11) as usize], full: rng.below(2) == 0, n: 8 + rng.below(9) as u8, ssx: 0, ssy: 0 };
                let st = if c.n == 8 && i % 2 == 0 { 8u8 } else { 16 };
                for (name, px) in [("cube", cube.clone()), ("bits", random_bits(&mut rng, nrand / 16)), ("unit", unit_cube(&mut rng, nrand / 16))] {
                    for call in ["LinToYuv", "XybToYuv"] {
                        let mut s = format!("\"ev\":\"total\",\"stage\":\"{call}\",\"cfg\":{},\"st\":{st},\"input\":\"{name}\",\"npx\":{},\"w\":{},\"h\":1,", c.json(), px.len(), px.len());
                        let w = px.len();
                        run_guarded(&mut s, |b| {
                            macro_rules! go {
                                ($t:ty) => {{
                                    let y = if call == "LinToYuv" {
                                        Yuv::<$t>::try_from((LinearRgb::new(px.clone(), w, 1).map_err(|_| "ctor".to_string())?, c.yuv_config()))
                                    } else {
                                        Yuv::<$t>::try_from((Xyb::new(px.clone(), w, 1).map_err(|_| "ctor".to_string())?, c.yuv_config()))
                                    }
                                    .map_err(|e| crate::frames::err_name_conv(e).to_string())?;
                                    let (mx, rw) = yuv_proj(&y);
                                    let _ = write!(b, "\"maxcode\":{mx},\"rewrap\":\"{rw}\",\"wo\":{},\"ho\":{},", y.width(), y.height());
                                    // and back up the chain to XYB
                                    let x = Xyb::try_from(&y).map_err(|e| format!("back:{}", crate::frames::err_name_conv(e)))?;
                                    let _ = write!(b, "\"back_len\":{},", x.data().len());
                                    Ok(())
                                }};
                            }
                            if st == 8 {
                                go!(u8)
                            } else {
                                go!(u16)
                            }
                        });
                        out(s);
                    }
                }
            }
        }
        "triples" => {
            // triples:<mc>  every (transfer, primaries) with this matrix code x layouts / ranges / depths: the encode and the
            // composite encode on a small special-value image.  Whether a triple is supported is not this property's
            // business (a declared error is fine), but NO combination of configuration fields may panic.
            let m: u8 = parts[1].parse().unwrap();
            let mut px: Vec<[f32; 3]> = cube.iter().step_by(293).take(48).copied().collect();
            px.extend(unit_cube(&mut rng, 1).into_iter().take(16));
            let (w, h) = (8usize, px.len() / 8);
            let px = &px[..w * h];
            const VARIANTS: [(bool, u8, u8, u8, u8); 4] = [(false, 8, 8, 1, 1), (true, 10, 16, 0, 0), (false, 12, 16, 1, 0), (true, 8, 8, 0, 0)];
            for &t in crate::util::TC_ALL.iter().filter(|&&x| x != 2) {
                for &p in crate::util::CP_ALL.iter().filter(|&&x| x != 2) {
                    for (vi, &(full, n, st, sx, sy)) in VARIANTS.iter().enumerate() {
                        if !o.thorough && (usize::from(t) + usize::from(p) + usize::from(m)) % 2 != vi % 2 {
                            continue;
                        }
                        let c = Cfg { mc: m, tc: t, cp: p, full, n, ssx: sx, ssy: sy };
                        let mut s = format!("\"ev\":\"total\",\"stage\":\"enc\",\"cfg\":{},\"st\":{st},\"input\":\"cube\",\"npx\":{},\"w\":{w},\"h\":{h},\"divisible\":1,", c.json(), px.len());
                        run_guarded(&mut s, |b| if st == 8 { enc::<u8>(px, w, h, &c, b) } else { enc::<u16>(px, w, h, &c, b) });
                        out(s);
                        let mut s = format!("\"ev\":\"total\",\"stage\":\"LinToYuv\",\"cfg\":{},\"st\":{st},\"input\":\"cube\",\"npx\":{},\"w\":{w},\"h\":{h},", c.json(), px.len());
                        run_guarded(&mut s, |b| {
                            macro_rules! go {
                                ($t:ty) => {{
                                    let y = Yuv::<$t>::try_from((LinearRgb::new(px.to_vec(), w, h).map_err(|_| "ctor".to_string())?, c.yuv_config())).map_err(|e| crate::frames::err_name_conv(e).to_string())?;
                                    let (mx, rw) = yuv_proj(&y);
                                    let _ = write!(b, "\"maxcode\":{mx},\"rewrap\":\"{rw}\",\"wo\":{},\"ho\":{},", y.width(), y.height());
                                    let x = Xyb::try_from(&y).map_err(|e| format!("back:{}", crate::frames::err_name_conv(e)))?;
                                    let _ = write!(b, "\"back_len\":{},", x.data().len());
                                    Ok(())
                                }};
                            }
                            if st == 8 {
                                go!(u8)
                            } else {
                                go!(u16)
                            }
                        });
                        out(s);
                    }
                }
            }
        }
        "encnan" => {
            // special values in SUBSAMPLED encodes: every subsampling, small sizes, pictures that are NaN / inf everywhere, in
            // the last row, the last column, the first column, in one chroma block, and random mixtures of the special values
            let sp = specials();
            for (sx, sy) in [(1u8, 1u8), (1, 0), (0, 1), (2, 0), (2, 2), (0, 0)] {
                for (w, h) in [(4usize, 4usize), (8, 4), (4, 8), (8, 8), (12, 4)] {
                    for st in [8u8, 16] {
                        let c = Cfg { mc: MC_STD[(w + h + usize::from(sx)) % 7], tc: 1, cp: 1, full: (w / 4 + usize::from(sy)) % 2 == 0, n: if st == 8 { 8 } else { 10 }, ssx: sx, ssy: sy };
                        for variant in 0..(if o.thorough { 40 } else { 14 }) {
                            let bad = [f32::NAN, f32::INFINITY, f32::NEG_INFINITY, -3.0e38][variant % 4];
                            let px: Vec<[f32; 3]> = (0..w * h)
                                .map(|i| {
                                    let (x, y) = (i % w, i / w);
                                    let hit = match variant / 4 {
                                        0 => true,
                                        1 => y == h - 1,
                                        2 => x == w - 1 || x == 0,
                                        _ => return [sp[rng.below(sp.len() as u64) as usize], sp[rng.below(sp.len() as u64) as usize], sp[rng.below(sp.len() as u64) as usize]],
                                    };
                                    if hit { [bad, bad, bad] } else { [0.25, 0.5, 0.75] }
                                })
                                .collect();
                            let mut s = format!("\"ev\":\"total\",\"stage\":\"enc\",\"cfg\":{},\"st\":{st},\"input\":\"cube\",\"npx\":{},\"w\":{w},\"h\":{h},\"divisible\":1,", c.json(), px.len());
                            run_guarded(&mut s, |b| if st == 8 { enc::<u8>(&px, w, h, &c, b) } else { enc::<u16>(&px, w, h, &c, b) });
                            out(s);
                        }
                    }
                }
            }
        }
        "dechuge" => {
            // strips and sheets of 8.4 million pixels and more (row-band splits: `h - first_row`, `h / workers` with h = 1, 9 ...)
            for (k, &(w, h, sx, sy)) in [(8_388_611usize, 1usize, 0u8, 0u8), (1_048_577, 9, 0, 0), (2_097_154, 4, 1, 1), (3840, 2160, 1, 1), (16, 524_289, 0, 0)].iter().enumerate() {
                let c = Cfg { mc: MC_STD[k % 7], tc: 1, cp: 1, full: k % 2 == 0, n: 8, ssx: sx, ssy: sy };
                let mut s = format!("\"ev\":\"total\",\"stage\":\"dec\",\"cfg\":{},\"st\":8,\"input\":\"codes\",\"npx\":{},\"w\":{w},\"h\":{h},", c.json(), w * h);
                run_guarded(&mut s, |b| {
                    let mut f: Frame<u8> = Frame { planes: [yuvxyb::Plane::new(w, h, 0, 0, 0, 0), yuvxyb::Plane::new(w >> sx, h >> sy, sx as usize, sy as usize, 0, 0), yuvxyb::Plane::new(w >> sx, h >> sy, sx as usize, sy as usize, 0, 0)] };
                    for p in f.planes.iter_mut() {
                        for (i, v) in p.data.iter_mut().enumerate() {
                            *v = (i % 251) as u8;
                        }
                    }
                    let y = Yuv::<u8>::new(f, c.yuv_config()).map_err(|e| format!("ctor:{}", crate::frames::err_name_yuv(e)))?;
                    let d = Rgb::try_from(&y).map_err(|e| crate::frames::err_name_conv(e).to_string())?.into_data();
                    let _ = write!(b, "\"nonfinite\":{},\"len\":{},", nonfinite(&d), d.len());
                    Ok(())
                });
                out(s);
            }
        }
        "lowdepth" => {
            // (C07 only) the constructor accepts u8 frames whatever `bit_depth` says (the sample scan is for 16-bit storage),
            // also depths 1..=7 with samples above 2^n - 1: whatever such a frame decodes TO, every access must stay inside
            // its buffer.  Outcomes (errors, panics on an unsupported depth) are not judged here, only the hooked sites.
            for n in 1u8..=7 {
                for full in [true, false] {
                    for (w, h, sx, sy) in [(24usize, 24usize, 0u8, 0u8), (16, 16, 1, 1), (64, 3, 0, 0), (40, 40, 1, 0)] {
                        let c = Cfg { mc: MC_STD[usize::from(n) % 7], tc: 1, cp: 1, full, n, ssx: sx, ssy: sy };
                        let px: Vec<[u16; 3]> = (0..w * h).map(|i| if i % 7 == 0 { [255, 255, 255] } else { [rng.below(256) as u16, rng.below(256) as u16, rng.below(256) as u16] }).collect();
                        for call in ["YuvToRgb", "YuvToXyb"] {
                            let mut s = format!("\"ev\":\"total\",\"stage\":\"dec\",\"call\":\"{call}\",\"cfg\":{},\"st\":8,\"input\":\"codes\",\"npx\":{},\"w\":{w},\"h\":{h},", c.json(), px.len());
                            run_guarded(&mut s, |b| {
                                let y = Yuv::<u8>::new(frame_from_pixels::<u8>(&px, w, h, sx, sy, [(0, 0), (3, 1), (0, 2)]), c.yuv_config()).map_err(|e| format!("ctor:{}", crate::frames::err_name_yuv(e)))?;
                                let d = if call == "YuvToRgb" {
                                    Rgb::try_from(&y).map_err(|e| crate::frames::err_name_conv(e).to_string())?.into_data()
                                } else {
                                    Xyb::try_from(&y).map_err(|e| crate::frames::err_name_conv(e).to_string())?.into_data()
                                };
                                let _ = write!(b, "\"nonfinite\":{},\"len\":{},", nonfinite(&d), d.len());
                                Ok(())
                            });
                            out(s);
                        }
                    }
                }
            }
        }
        "unspecsz" => {
            // Unspecified metadata is a supported configuration (it is resolved from the picture size): the composite encode
            // and the decode for every height / width in bands around the thresholds of the size heuristic and around
            // the common picture sizes, every subset of the three fields Unspecified, both storage types
            let mut sizes: Vec<(usize, usize)> = Vec::new();
            for h in (464..=496).chain(560..=592).chain(712..=728).chain(1072..=1096).chain(2152..=2168) {
                sizes.push((2, h));
            }
            for w in (1264..=1296).chain(1912..=1928).chain(3832..=3848).chain(712..=728) {
                sizes.push((w, 2));
            }
            for (i, &(w, h)) in sizes.iter().enumerate() {
                let px = unit_cube(&mut rng, w * h);
                let px = &px[..w * h];
                for sub in 1u8..8 {
                    if !o.thorough && (i + usize::from(sub)) % 3 != 0 {
                        continue;
                    }
                    let st = if (i + usize::from(sub)) % 2 == 0 { 8u8 } else { 16 };
                    let c = Cfg { mc: if sub & 1 != 0 { 2 } else { 6 }, tc: if sub & 2 != 0 { 2 } else { 13 }, cp: if sub & 4 != 0 { 2 } else { 9 }, full: i % 2 == 0, n: if st == 8 { 8 } else { 10 }, ssx: 0, ssy: 0 };
                    let mut s = format!("\"ev\":\"total\",\"stage\":\"LinToYuv\",\"cfg\":{},\"st\":{st},\"input\":\"unit\",\"npx\":{},\"w\":{w},\"h\":{h},", c.json(), px.len());
                    run_guarded(&mut s, |b| {
                        macro_rules! go {
                            ($t:ty) => {{
                                let y = Yuv::<$t>::try_from((LinearRgb::new(px.to_vec(), w, h).map_err(|_| "ctor".to_string())?, c.yuv_config())).map_err(|e| crate::frames::err_name_conv(e).to_string())?;
                                let (mx, rw) = yuv_proj(&y);
                                let _ = write!(b, "\"maxcode\":{mx},\"rewrap\":\"{rw}\",\"wo\":{},\"ho\":{},", y.width(), y.height());
                                let x = Xyb::try_from(&y).map_err(|e| format!("back:{}", crate::frames::err_name_conv(e)))?;
                                let _ = write!(b, "\"back_len\":{},", x.data().len());
                                Ok(())
                            }};
                        }
                        if st == 8 {
                            go!(u8)
                        } else {
                            go!(u16)
                        }
                    });
                    out(s);
                }
            }
        }
        _ => {}
    }
    std::panic::set_hook(prev);
}

pub fn batches(for_c07: bool) -> Vec<String> {
    let mut v = Vec::new();
    if for_c07 {
        v.push("lowdepth".to_string());
    }
    for t in TC_SUP {
        v.push(format!("tf:{t}:lin"));
        v.push(format!("tf:{t}:gam"));
    }
    for p in CP_SUP {
        v.push(format!("prim:{p}:to709"));
        v.push(format!("prim:{p}:from709"));
    }
    v.push("float".to_string());
    for m in MC_STD {
        v.push(format!("enc:{m}"));
    }
    v.push("encbig".to_string());
    // the same batches in a host process that has a `log` logger installed at Trace level
    for b in ["log+tf:18:lin", "log+tf:1:gam", "log+prim:9:to709", "log+float", "log+enc:1", "log+enc:8", "log+encbig", "log+decgeom", "log+chain"] {
        v.push(b.to_string());
    }
    for b in ["small+float", "small+enc:1", "small+tf:16:lin", "small+prim:9:to709", "small+decgeom", "small+chain", "small+encgeom", "cpu1+float", "cpu1+encbig", "cpu1+tf:13:gam", "cpu1+dechuge", "cpu1+chain"] {
        v.push(b.to_string());
    }
    v.push("dechuge".to_string());
    v.push("encnan".to_string());
    v.push("encgeom".to_string());
    v.push("decgeom".to_string());
    v.push("chain".to_string());
    for m in crate::util::MC_ALL.iter().filter(|&&x| x != 2) {
        v.push(format!("triples:{m}"));
    }
    v.push("unspecsz".to_string());
    v
}

use crate::util::NULL_LOGGER;

/// child entry point: `yvx-conform c13worker <batch> --tier .. --seed ..` prints bodies to stdout
pub fn worker_main(batch: &str, o: &Opts) {
    let batch = if let Some(b) = batch.strip_prefix("log+") {
        let _ = log::set_logger(&NULL_LOGGER);
        log::set_max_level(log::LevelFilter::Trace);
        b
    } else {
        batch
    };
    // HOSTS.  "cpu1+": this process was started pinned to one CPU (by gen_c13, through taskset).  "small+": the batch
    // runs on a thread with a 128 KiB stack (the default of musl and of many FFI callers); a stack overflow kills the
    // process, which gen_c13 reports as an abort.  What a conversion does must not depend on either.
    let batch = batch.strip_prefix("cpu1+").unwrap_or(batch);
    if let Some(b) = batch.strip_prefix("small+") {
        let (b, o2) = (b.to_string(), Opts { out: o.out.clone(), plan: o.plan.clone(), as_prop: o.as_prop.clone(), ..*o });
        let h = std::thread::Builder::new().stack_size(128 * 1024).spawn(move || run_batch(&b, &o2)).expect("spawn small-stack thread");
        let _ = h.join();
        return;
    }
    run_batch(batch, o);
}
fn run_batch(batch: &str, o: &Opts) {
    let stdout = std::io::stdout();
    let mut lock = stdout.lock();
    worker(batch, o, &mut |s| {
        let _ = writeln!(lock, "{s}");
        let _ = lock.flush();
    });
}

/// a CPU this process may run on, if `taskset` can actually pin a child to it (probed with `true`)
fn pin_cpu() -> Option<u32> {
    if !std::path::Path::new("/usr/bin/taskset").exists() {
        return None;
    }
    let status = std::fs::read_to_string("/proc/self/status").ok()?;
    let list = status.lines().find_map(|l| l.strip_prefix("Cpus_allowed_list:"))?.trim().to_string();
    let first: u32 = list.split(|c| c == ',' || c == '-').next()?.trim().parse().ok()?;
    let ok = Command::new("/usr/bin/taskset").args(["-c", &first.to_string(), "true"]).stdout(Stdio::null()).stderr(Stdio::null()).status().map(|s| s.success()).unwrap_or(false);
    if ok {
        Some(first)
    } else {
        None
    }
}

pub fn gen_c13(sh: &mut Shards, o: &Opts, only: Option<&str>) -> serde_json::Value {
    let exe = std::env::current_exe().expect("exe");
    let mut calls = 0u64;
    let mut aborted = 0u64;
    let all = batches(o.as_prop == "C07");
    // run the batches as child processes, a few at a time
    let par = 12usize;
    let mut idx = 0;
    while idx < all.len() {
        let group: Vec<&String> = all[idx..(idx + par).min(all.len())].iter().filter(|b| only.map_or(true, |p| b.starts_with(p))).collect();
        idx += par;
        let mut kids = Vec::new();
        for b in group {
            let mut cmd = match (b.starts_with("cpu1+"), pin_cpu()) {
                (true, Some(cpu)) => {
                    let mut c = Command::new("/usr/bin/taskset");
                    c.args(["-c", &cpu.to_string()]).arg(&exe);
                    c
                }
                // no way to pin on this host (no taskset, or it refuses): the batch runs unpinned rather than failing for a
                // reason that has nothing to do with the code under test
                _ => Command::new(&exe),
            };
            let child = cmd
                .args(["c13worker", b, "--tier", if o.thorough { "thorough" } else { "quick" }, "--seed", &o.seed.to_string()])
                .stdout(Stdio::piped())
                .stderr(Stdio::null())
                .spawn()
                .expect("spawn worker");
            kids.push((b.clone(), child));
        }
        for (b, mut child) in kids {
            let rd = BufReader::new(child.stdout.take().expect("stdout"));
            let mut last = String::new();
            for line in rd.lines() {
                let line = line.unwrap_or_default();
                if line.starts_with("\"ev\"") && line.ends_with(']') {
                    sh.emit(&line);
                    calls += 1;
                    last = line.chars().take(160).collect();
                }
            }
            let st = child.wait().expect("wait");
            if !st.success() {
                aborted += 1;
                let last = last.replace('\\', "").replace('"', "'");
                sh.emit(&format!("\"ev\":\"total\",\"stage\":\"batch\",\"batch\":\"{b}\",\"res\":\"abort\",\"status\":\"{st}\",\"after\":\"{last}\",\"hooks\":[]"));
            }
        }
    }
    serde_json::json!({"calls": calls, "aborted_batches": aborted, "batches": all.len(), "distinct": calls})
}
