//! Full-mode hook traces of the two pixel loops (C11 dependency map, C07 bounds), as sessions for TraceLoops.tla:
//! loop_begin, one `row` line per w accesses-groups, loop_end.

use std::fmt::Write as _;
use std::panic::{catch_unwind, AssertUnwindSafe};

use yuvxyb::{Pixel, Rgb, Yuv};
use yuvxyb_math::verif_hooks as hooks;

use crate::frames::{frame_from_pixels, Cfg};
use crate::util::{cp, tc, Rng, Shards};
use crate::Opts;

fn emit_session(sh: &mut Shards, sid: u64, kind: &str, c: &Cfg, st: u8, w: usize, h: usize, strides: [usize; 3], pdims: [(usize, usize); 3], res: &str, ev: &[hooks::Event]) {
    sh.emit(&format!(
        "\"ev\":\"loop_begin\",\"sid\":{sid},\"kind\":\"{kind}\",\"st\":{st},\"w\":{w},\"h\":{h},\"ssx\":{},\"ssy\":{},\"strides\":[{},{},{}],\"pdims\":[[{},{}],[{},{}],[{},{}]]",
        c.ssx, c.ssy, strides[0], strides[1], strides[2], pdims[0].0, pdims[0].1, pdims[1].0, pdims[1].1, pdims[2].0, pdims[2].1
    ));
    // group per pixel: a group starts at the float-slot access
    let slot = if kind == "dec" { "dec_out" } else { "enc_in" };
    let mut groups: Vec<Vec<&hooks::Event>> = Vec::new();
    for e in ev {
        if e.site == slot || groups.is_empty() {
            groups.push(Vec::new());
        }
        groups.last_mut().unwrap().push(e);
    }
    for chunk in groups.chunks(w.max(1)) {
        let mut s = format!("\"ev\":\"row\",\"sid\":{sid},\"groups\":[");
        for (i, g) in chunk.iter().enumerate() {
            if i > 0 {
                s.push(',');
            }
            s.push('[');
            for (j, a) in g.iter().enumerate() {
                if j > 0 {
                    s.push(',');
                }
                let _ = write!(s, "[\"{}\",{},{}]", a.site, a.a.min(2_000_000_000), a.b.min(2_000_000_000));
            }
            s.push(']');
        }
        s.push(']');
        sh.emit(&s);
    }
    sh.emit(&format!("\"ev\":\"loop_end\",\"sid\":{sid},\"res\":\"{res}\""));
}

fn enc_session<T: Pixel>(sh: &mut Shards, sid: u64, c: &Cfg, st: u8, w: usize, h: usize, rng: &mut Rng) {
    let px: Vec<[f32; 3]> = (0..w * h).map(|_| [rng.unit() as f32, rng.unit() as f32, rng.unit() as f32]).collect();
    let rgb = Rgb::new(px, w, h, tc(c.tc), cp(c.cp)).expect("rgb");
    hooks::enable(hooks::Mode::Full);
    let r = catch_unwind(AssertUnwindSafe(|| Yuv::<T>::try_from((&rgb, c.yuv_config()))));
    let ev = hooks::drain_events();
    hooks::enable(hooks::Mode::Off);
    match r {
        Ok(Ok(y)) => {
            let d = y.data();
            emit_session(sh, sid, "enc", c, st, w, h, [d[0].cfg.stride, d[1].cfg.stride, d[2].cfg.stride], [(d[0].cfg.width, d[0].cfg.height), (d[1].cfg.width, d[1].cfg.height), (d[2].cfg.width, d[2].cfg.height)], "ok", &ev);
        }
        Ok(Err(e)) => emit_session(sh, sid, "enc", c, st, w, h, [0; 3], [(0, 0); 3], crate::frames::err_name_conv(e), &ev),
        Err(_) => emit_session(sh, sid, "enc", c, st, w, h, [0; 3], [(0, 0); 3], "panic", &ev),
    }
}

fn dec_session<T: Pixel>(sh: &mut Shards, sid: u64, c: &Cfg, st: u8, w: usize, h: usize, rng: &mut Rng) {
    let maxc = (1u64 << c.n) - 1;
    let px: Vec<[u16; 3]> = (0..w * h).map(|_| [rng.below(maxc + 1) as u16, rng.below(maxc + 1) as u16, rng.below(maxc + 1) as u16]).collect();
    let pads = [(rng.below(18) as usize, rng.below(4) as usize), (rng.below(18) as usize, rng.below(4) as usize), (rng.below(18) as usize, rng.below(4) as usize)];
    let y = match crate::util::guard(|| Yuv::<T>::new(frame_from_pixels::<T>(&px, w, h, c.ssx, c.ssy, pads), c.yuv_config())) {
        Ok(Ok(y)) => y,
        Ok(Err(e)) => {
            // a well-formed frame was rejected: the session ends without accesses and with a non-ok result (TLC rejects it)
            emit_session(sh, sid, "dec", c, st, w, h, [0; 3], [(0, 0); 3], &format!("ctor:{}", crate::frames::err_name_yuv(e)), &[]);
            return;
        }
        Err(_) => {
            emit_session(sh, sid, "dec", c, st, w, h, [0; 3], [(0, 0); 3], "ctor:panic", &[]);
            return;
        }
    };
    let d = y.data();
    let strides = [d[0].cfg.stride, d[1].cfg.stride, d[2].cfg.stride];
    let pdims = [(d[0].cfg.width, d[0].cfg.height), (d[1].cfg.width, d[1].cfg.height), (d[2].cfg.width, d[2].cfg.height)];
    hooks::enable(hooks::Mode::Full);
    let r = catch_unwind(AssertUnwindSafe(|| Rgb::try_from(&y).map(|r| r.data().len())));
    let ev = hooks::drain_events();
    hooks::enable(hooks::Mode::Off);
    let res = match r {
        Ok(Ok(_)) => "ok".to_string(),
        Ok(Err(e)) => crate::frames::err_name_conv(e).to_string(),
        Err(_) => "panic".to_string(),
    };
    emit_session(sh, sid, "dec", c, st, w, h, strides, pdims, &res, &ev);
}

pub fn gen_loops(sh: &mut Shards, o: &Opts) -> serde_json::Value {
    let prev = std::panic::take_hook();
    std::panic::set_hook(Box::new(|_| {}));
    let mut rng = Rng::new(o.seed, 0x100b5);
    let lim = if o.thorough { 12 } else { 8 };
    let mut sid = 0u64;
    let mut pixels = 0u64;
    let mut sizes: Vec<(usize, usize)> = Vec::new();
    for w in 1..=lim {
        for h in 1..=lim {
            sizes.push((w, h));
        }
    }
    sizes.extend([(16, 4), (4, 16), (33, 2), (64, 2), (2, 64)]);
    for (w, h) in sizes {
        for (sx, sy) in [(0u8, 0u8), (1, 0), (1, 1), (0, 1), (2, 0), (2, 2)] {
            if w % (1 << sx) != 0 || h % (1 << sy) != 0 {
                continue;
            }
            for st in [8u8, 16] {
                let c = Cfg { mc: [1u8, 5, 9, 8][(sid % 4) as usize], tc: 1, cp: 1, full: (sid / 4) % 2 == 0, n: if st == 8 { 8 } else { 10 }, ssx: sx, ssy: sy };
                sid += 1;
                if st == 8 {
                    enc_session::<u8>(sh, sid, &c, st, w, h, &mut rng);
                    sid += 1;
                    dec_session::<u8>(sh, sid, &c, st, w, h, &mut rng);
                } else {
                    enc_session::<u16>(sh, sid, &c, st, w, h, &mut rng);
                    sid += 1;
                    dec_session::<u16>(sh, sid, &c, st, w, h, &mut rng);
                }
                pixels += 2 * (w * h) as u64;
            }
        }
    }
    std::panic::set_hook(prev);
    serde_json::json!({"sessions": sid, "pixels": pixels, "calls": sid, "distinct": sid})
}
