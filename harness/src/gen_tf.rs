//! Transfer-curve traces: C03 (both directions vs definition), C10 (gamma->linear->gamma), and the
//! curve anchors of C16.  Observed exactly as the property says: LinearRgb::try_from(Rgb{t, BT709})
//! isolates to_linear, Rgb::try_from((LinearRgb, t, BT709)) isolates to_gamma.
//!
//! `screen_*` is an UNTRUSTED f64 estimate used only to choose which inputs of a dense sweep are handed
//! to TLC (DESIGN.md 5.5).  It never judges anything; if it is wrong the cost is a missed detection.

use std::fmt::Write as _;

use yuvxyb::{LinearRgb, Rgb};

use crate::util::{cp, cut_images, list, px_bits, px_fx, tc, Rng, Shards, TC_SUP};
use crate::Opts;

pub fn to_linear(t: u8, px: &[[f32; 3]], w: usize, h: usize) -> Result<Vec<[f32; 3]>, &'static str> {
    crate::util::guard2(|| to_linear_inner(t, px, w, h))
}
fn to_linear_inner(t: u8, px: &[[f32; 3]], w: usize, h: usize) -> Result<Vec<[f32; 3]>, &'static str> {
    let rgb = crate::srcs::rgb(px, w, h, tc(t), cp(1))?;
    match LinearRgb::try_from(rgb) {
        Ok(l) => {
            if l.width() != w || l.height() != h || l.data().len() != px.len() {
                return Err("shape");
            }
            Ok(l.data().to_vec())
        }
        Err(e) => Err(crate::frames::err_name_conv(e)),
    }
}
pub fn to_gamma(t: u8, px: &[[f32; 3]], w: usize, h: usize) -> Result<Vec<[f32; 3]>, &'static str> {
    crate::util::guard2(|| to_gamma_inner(t, px, w, h))
}
fn to_gamma_inner(t: u8, px: &[[f32; 3]], w: usize, h: usize) -> Result<Vec<[f32; 3]>, &'static str> {
    let lin = crate::srcs::lin(px, w, h)?;
    match Rgb::try_from((lin, tc(t), cp(1))) {
        Ok(r) => {
            if r.width() != w || r.height() != h || r.data().len() != px.len() {
                return Err("shape");
            }
            Ok(r.data().to_vec())
        }
        Err(e) => Err(crate::frames::err_name_conv(e)),
    }
}
fn apply(t: u8, dir: &str, px: &[[f32; 3]], w: usize, h: usize) -> Result<Vec<[f32; 3]>, &'static str> {
    if dir == "lin" {
        to_linear(t, px, w, h)
    } else {
        to_gamma(t, px, w, h)
    }
}

// ------------------------------------------------------------------------------------------
// untrusted f64 screen
fn g709(l: f64) -> f64 {
    if l < 0.018 {
        4.5 * l
    } else {
        1.099 * l.powf(0.45) - 0.099
    }
}
fn g709inv(v: f64) -> f64 {
    if v < 0.081 {
        v / 4.5
    } else {
        ((v + 0.099) / 1.099).powf(1.0 / 0.45)
    }
}
pub fn screen_ref(t: u8, dir: &str, x: f64) -> f64 {
    let lin = dir == "lin";
    match t {
        1 | 6 | 7 | 14 | 15 | 11 => {
            if lin {
                x.powf(2.4)
            } else {
                x.powf(1.0 / 2.4)
            }
        }
        4 => {
            if lin {
                x.powf(2.2)
            } else {
                x.powf(1.0 / 2.2)
            }
        }
        5 => {
            if lin {
                x.powf(2.8)
            } else {
                x.powf(1.0 / 2.8)
            }
        }
        8 => x,
        13 => {
            if lin {
                if x < 0.04045 {
                    x / 12.92
                } else {
                    ((x + 0.055) / 1.055).powf(2.4)
                }
            } else if x < 0.003_130_8 {
                12.92 * x
            } else {
                1.055 * x.powf(1.0 / 2.4) - 0.055
            }
        }
        9 => {
            if lin {
                10f64.powf(2.0 * (x - 1.0))
            } else if x < 0.01 {
                0.0
            } else {
                1.0 + x.log10() / 2.0
            }
        }
        10 => {
            if lin {
                10f64.powf(2.5 * (x - 1.0))
            } else if x < 0.003_162_277_660_168_4 {
                0.0
            } else {
                1.0 + x.log10() / 2.5
            }
        }
        16 => {
            let (m1, m2, c1, c2, c3) = (0.159_301_757_812_5, 78.843_75, 0.835_937_5, 18.851_562_5, 18.6875);
            if lin {
                if x <= 0.0 {
                    return 0.0;
                }
                let xp = x.powf(1.0 / m2);
                let num = (xp - c1).max(0.0);
                let y = (num / (c2 - c3 * xp)).powf(1.0 / m1);
                g709inv((100.0 * y).powf(1.0 / 2.4)) / 59.5208
            } else {
                let y = g709(59.5208 * x).powf(2.4) / 100.0;
                let ym = y.powf(m1);
                ((c1 + c2 * ym) / (1.0 + c3 * ym)).powf(m2)
            }
        }
        18 => {
            let (a, b, c) = (0.178_832_77, 0.284_668_92, 0.559_910_73);
            if lin {
                if x <= 0.5 {
                    x * x / 3.0
                } else {
                    (((x - c) / a).exp() + b) / 12.0
                }
            } else if x <= 1.0 / 12.0 {
                (3.0 * x).sqrt()
            } else {
                a * (12.0 * x - b).ln() + c
            }
        }
        _ => x,
    }
}

/// branch points of the curve definitions (from the standards), used to aim samples
const BRANCH: [f32; 16] = [
    0.018, 0.018_053_97, 0.081, 0.081_242_86, 0.003_130_8, 0.040_45, 0.003_041_282_5, 0.039_293_37, 0.01, 0.003_162_277_6, 1.0 / 12.0, 0.5,
    0.000_302_4, 0.000_303_47, 0.25, 0.75,
];

fn base_inputs(o: &Opts, rng: &mut Rng) -> Vec<f32> {
    let mut v: Vec<f32> = vec![0.0, 1.0, f32::from_bits(1), f32::MIN_POSITIVE, f32::from_bits(0x3f7f_ffff)];
    let r = if o.thorough { 64 } else { 12 };
    for b in BRANCH {
        for d in -r..=r {
            let x = f32::from_bits((b.to_bits() as i32 + d) as u32);
            if (0.0..=1.0).contains(&x) {
                v.push(x);
            }
        }
    }
    let n = if o.thorough { 6000 } else { 420 };
    for i in 0..n {
        // log-spaced 2^-30 .. 1
        let e = -30.0 * (1.0 - i as f64 / (n - 1) as f64);
        v.push(2f64.powf(e) as f32);
        v.push((i as f64 / (n - 1) as f64) as f32);
        v.push(rng.unit() as f32);
    }
    v
}

/// dense strided sweep over all f32 in [0,1]; returns the worst-looking input of each stratum
fn screened(t: u8, dir: &str, o: &Opts, rng: &mut Rng, rt: bool) -> (Vec<f32>, u64) {
    let top = 1.0f32.to_bits(); // 0x3f800000: floats in [0,1] are bit patterns 0..=top
    let (stride, strata) = if o.thorough { (16u32, 4096usize) } else { (256u32, 256usize) };
    let ph = rng.below(u64::from(stride)) as u32;
    let per = (top as usize / strata) + 1;
    let mut worst: Vec<(f64, f32)> = vec![(-1.0, 0.0); strata];
    let mut buf: Vec<[f32; 3]> = Vec::with_capacity(3 * 4096);
    let mut swept = 0u64;
    let mut b = ph;
    let flush = |buf: &mut Vec<[f32; 3]>, worst: &mut Vec<(f64, f32)>| {
        if buf.is_empty() {
            return;
        }
        let w = buf.len();
        let out = if rt {
            apply(t, "lin", buf, w, 1).and_then(|m| apply(t, "gam", &m, w, 1))
        } else {
            apply(t, dir, buf, w, 1)
        };
        if let Ok(out) = out {
            for (p, q) in buf.iter().zip(out.iter()) {
                for k in 0..3 {
                    let x = p[k];
                    let r = if rt { f64::from(x) } else { screen_ref(t, dir, f64::from(x)) };
                    let dev = (f64::from(q[k]) - r).abs();
                    let dev = if dev.is_nan() { f64::INFINITY } else { dev };
                    let s = (x.to_bits() as usize / per).min(strata - 1);
                    if dev > worst[s].0 {
                        worst[s] = (dev, x);
                    }
                }
            }
        }
        buf.clear();
    };
    let mut cur = [0f32; 3];
    let mut k = 0;
    while b <= top {
        cur[k] = f32::from_bits(b);
        k += 1;
        if k == 3 {
            buf.push(cur);
            k = 0;
            if buf.len() >= 4093 {
                flush(&mut buf, &mut worst);
            }
        }
        swept += 1;
        b = match b.checked_add(stride) {
            Some(n) => n,
            None => break,
        };
    }
    if k > 0 {
        for j in k..3 {
            cur[j] = 0.0;
        }
        buf.push(cur);
    }
    flush(&mut buf, &mut worst);
    (worst.into_iter().filter(|w| w.0 >= 0.0).map(|w| w.1).collect(), swept)
}

fn to_pixels(xs: &[f32]) -> Vec<[f32; 3]> {
    let mut px = Vec::with_capacity(xs.len() / 3 + 1);
    let mut i = 0;
    while i < xs.len() {
        let g = |j: usize| if j < xs.len() { xs[j] } else { xs[xs.len() - 1] };
        px.push([g(i), g(i + 1), g(i + 2)]);
        i += 3;
    }
    px
}

const CLASS_REPS: [u8; 10] = [1, 4, 5, 8, 9, 10, 11, 13, 16, 18];
const ALIASES: [u8; 5] = [1, 6, 7, 14, 15];

/// near-black pixels whose channels differ slightly (achromatic shortcuts, per-pixel vs per-component paths)
fn mixed_near_black() -> Vec<[f32; 3]> {
    let mut v = Vec::new();
    for e in 0..24 {
        let t = 2f32.powi(-30 + e);
        v.push([0.0, t, 2.0 * t]);
        v.push([t, 0.0, 0.5 * t]);
        v.push([t, t * 1.000_001, t]);
        v.push([1.0 - t, 1.0, 1.0 - 2.0 * t]);
        // achromatic pixels (all three channels the same float): a "black stays black" / "grey pixel" shortcut keyed on the
        // WHOLE pixel never fires for samples packed three different values to a pixel
        v.push([t, t, t]);
        v.push([1.0 - t, 1.0 - t, 1.0 - t]);
    }
    for g in [0.0f32, 1.0, 0.5, 0.25, 0.081, 0.018, 0.04045, 0.0031308, 0.01, 0.1, 0.0031622776] {
        v.push([g, g, g]);
    }
    v.push([0.0, 0.0, 1.0]);
    v.push([1.0, 0.0, 0.0]);
    v.push([0.0, 1.0, 0.0]);
    v
}

/// a frame of >= 2^20 samples: interesting values at both ends, random fill with a near-black admixture;
/// returns (pixels, w, h, probe positions)
fn big_frame(o: &Opts, rng: &mut Rng, k: usize) -> (Vec<[f32; 3]>, usize, usize, Vec<usize>) {
    let (w, h) = [(701usize, 523usize), (1031, 347), (523, 701)][k % 3];
    big_frame_wh(o, rng, w, h)
}
fn big_frame_wh(o: &Opts, rng: &mut Rng, w: usize, h: usize) -> (Vec<[f32; 3]>, usize, usize, Vec<usize>) {
    let n = w * h;
    let mut head = to_pixels(&base_inputs(o, rng));
    head.extend(mixed_near_black());
    let mut px: Vec<[f32; 3]> = Vec::with_capacity(n);
    px.extend(head.iter().copied());
    while px.len() < n - head.len() {
        let f = |r: &mut Rng| if r.below(5) == 0 { 2f64.powf(r.range(-30.0, -8.0)) as f32 } else { r.unit() as f32 };
        px.push([f(rng), f(rng), f(rng)]);
    }
    px.extend(head.iter().rev().copied());
    px.truncate(n);
    // the very last (and first) pixels are where dropped remainders live: mid-range values, never fixed points of a curve
    for k in 0..16 {
        let t = 0.07 + 0.055 * k as f32;
        px[n - 1 - k] = [t, 0.97 - t, 0.31 + 0.5 * t];
        px[k] = [0.97 - t, 0.31 + 0.5 * t, t];
    }
    // a few samples far outside [0,1] share the frame with the judged ones (per-frame statistics, tables stretched over
    // the frame's own range): they are outside the properties' domain and TLC skips them
    if n > 4096 {
        px[n / 3] = [255.0, 0.5, -3.0];
        px[n / 2 + 1] = [0.25, 1.0e6, 0.75];
        px[2 * n / 3 + 5] = [-1000.0, -0.0, 65504.0];
    }
    let mut idx: std::collections::BTreeSet<usize> = crate::util::probe_indices(n, w, rng).into_iter().collect();
    for k in 0..16 {
        idx.insert(k);
        idx.insert(n - 1 - k);
    }
    // every 3rd interesting pixel at the head, every 3rd at the tail
    for i in (0..head.len()).step_by(5) {
        idx.insert(i);
        idx.insert(n - 2 - i);
    }
    (px, w, h, idx.into_iter().collect())
}

fn emit_tf_probe(sh: &mut Shards, ev: &str, t: u8, dir: &str, px: &[[f32; 3]], w: usize, h: usize, idx: &[usize], res: Result<Vec<[f32; 3]>, &'static str>) {
    sh.emit(&tf_probe_body(ev, "", t, dir, px, w, h, idx, res));
}
fn tf_probe_body(ev: &str, extra: &str, t: u8, dir: &str, px: &[[f32; 3]], w: usize, h: usize, idx: &[usize], res: Result<Vec<[f32; 3]>, &'static str>) -> String {
    let sel: Vec<[f32; 3]> = idx.iter().map(|&i| px[i]).collect();
    let mut s = String::new();
    let _ = write!(s, "\"ev\":\"{ev}\",\"probe\":1,{extra}\"tc\":{t},\"dir\":\"{dir}\",\"w\":{w},\"h\":{h},\"x\":");
    list(&mut s, &sel, px_fx);
    match res {
        Ok(out) => {
            let o2: Vec<[f32; 3]> = idx.iter().map(|&i| out[i]).collect();
            let key = if ev == "tfrt" { "z" } else { "y" };
            let _ = write!(s, ",\"res\":\"ok\",\"{key}\":");
            list(&mut s, &o2, px_fx);
            if t == 8 && ev == "tf" {
                s.push_str(",\"xb\":");
                list(&mut s, &sel, px_bits);
                s.push_str(",\"yb\":");
                list(&mut s, &o2, px_bits);
            }
        }
        Err(e) => {
            let _ = write!(s, ",\"res\":\"{e}\"");
        }
    }
    s
}

/// SCHEDULES: the curves converted by 8 threads AT THE SAME TIME in a process that has not converted anything yet (lazily
/// built shared tables, caches behind locks).  Runs in a child process (`concworker <variant>`), prints event bodies.
/// variant 0: every thread starts with the same curve (PQ first); variant 1: every thread starts with a different curve.
pub fn conc_worker(variant: u64, o: &Opts) {
    use std::sync::{Arc, Barrier};
    let nthreads = 8usize;
    let barrier = Arc::new(Barrier::new(nthreads));
    let (w, h) = (251usize, 163usize); // 40,913 pixels: above the sizes at which per-frame tables usually start to pay
    let n = w * h;
    let px: Arc<Vec<[f32; 3]>> = Arc::new((0..n).map(|i| { let v = (i % 4099) as f32 / 4098.0; [v, 1.0 - v, 0.25 + 0.5 * v] }).collect());
    let mut order: Vec<(u8, &'static str)> = vec![(16, "lin"), (16, "gam")];
    for &t in TC_SUP.iter().filter(|&&t| t != 16) {
        order.push((t, "lin"));
        order.push((t, "gam"));
    }
    let seed = o.seed;
    let handles: Vec<_> = (0..nthreads)
        .map(|j| {
            let (b, px, mut ord) = (barrier.clone(), px.clone(), order.clone());
            if variant == 1 {
                ord.rotate_left((j * 3) % order.len());
            }
            std::thread::spawn(move || {
                let mut rng = Rng::new(seed, 0x0303_c0c0 + j as u64);
                let mut idx: Vec<usize> = (0..6).chain(n - 6..n).collect();
                for _ in 0..12 {
                    idx.push(rng.below(n as u64) as usize);
                }
                idx.sort_unstable();
                idx.dedup();
                let mut out = Vec::new();
                b.wait();
                for round in 0..(1 + variant) {
                    for &(t, dir) in &ord {
                        let res = apply(t, dir, &px, w, h);
                        out.push(tf_probe_body("tf", &format!("\"conc\":[{variant},{j},{round}],"), t, dir, &px, w, h, &idx, res));
                    }
                }
                out
            })
        })
        .collect();
    let stdout = std::io::stdout();
    let mut lock = stdout.lock();
    use std::io::Write as _;
    for hd in handles {
        match hd.join() {
            Ok(lines) => {
                for s in lines {
                    let _ = writeln!(lock, "{s}");
                }
            }
            Err(_) => {
                let _ = writeln!(lock, "\"ev\":\"tf\",\"probe\":1,\"conc\":[{variant},-1,0],\"tc\":16,\"dir\":\"lin\",\"w\":{w},\"h\":{h},\"x\":[],\"res\":\"panic\"");
            }
        }
    }
}
/// run the two concurrent variants in fresh child processes and forward their events
fn conc_events(sh: &mut Shards, o: &Opts) -> u64 {
    let exe = std::env::current_exe().expect("exe");
    let mut n = 0;
    for variant in 0..2u64 {
        let out = std::process::Command::new(&exe).args(["concworker", &variant.to_string(), "--seed", &o.seed.to_string()]).stderr(std::process::Stdio::null()).output();
        match out {
            Ok(o2) if o2.status.success() => {
                for line in String::from_utf8_lossy(&o2.stdout).lines() {
                    if line.starts_with("\"ev\"") {
                        sh.emit(line);
                        n += 1;
                    }
                }
            }
            Ok(o2) => {
                sh.emit(&format!("\"ev\":\"tf\",\"probe\":1,\"conc\":[{variant},-1,0],\"tc\":16,\"dir\":\"lin\",\"w\":1,\"h\":1,\"x\":[],\"res\":\"abort:{}\"", o2.status.to_string().replace('"', "'")));
                n += 1;
            }
            Err(_) => {}
        }
    }
    n
}

pub fn gen_c03(sh: &mut Shards, o: &Opts) -> serde_json::Value {
    let mut samples = 0u64;
    let mut swept = 0u64;
    let mut pairs = 0u64;
    for (ti, &t) in CLASS_REPS.iter().enumerate() {
        for (di, dir) in ["lin", "gam"].iter().enumerate() {
            let mut rng = Rng::new(o.seed, 0x0303_0000 + (ti * 2 + di) as u64);
            let mut xs = base_inputs(o, &mut rng);
            let (w, s) = screened(t, dir, o, &mut rng, false);
            xs.extend(w);
            swept += s;
            pairs += 1;
            let mut px = to_pixels(&xs);
            px.extend(mixed_near_black());
            samples += 3 * px.len() as u64;
            for (at, w, h) in cut_images(px.len(), ti + di) {
                // curves for which the standards circulate two sets of constants (sRGB, PQ): every event also carries bright
                // samples, where the candidate formulas are furthest apart, so that ONE of them has to explain the whole event
                let mut own: Vec<[f32; 3]> = px[at..at + w * h].to_vec();
                if (t == 16 || t == 13) && own.len() >= 2 {
                    let last = own.len() - 1;
                    own[last] = [1.0, 0.9, 0.8];
                }
                let img = &own[..];
                let mut s = String::new();
                let _ = write!(s, "\"ev\":\"tf\",\"tc\":{t},\"dir\":\"{dir}\",\"w\":{w},\"h\":{h},\"x\":");
                list(&mut s, img, px_fx);
                match apply(t, dir, img, w, h) {
                    Ok(out) => {
                        s.push_str(",\"res\":\"ok\",\"y\":");
                        list(&mut s, &out, px_fx);
                        if t == 8 {
                            s.push_str(",\"xb\":");
                            list(&mut s, img, px_bits);
                            s.push_str(",\"yb\":");
                            list(&mut s, &out, px_bits);
                        }
                    }
                    Err(e) => {
                        let _ = write!(s, ",\"res\":\"{e}\"");
                    }
                }
                sh.emit(&s);
            }
        }
    }
    // echo images: [p, f(p), p, p, f(p), f(p)] per pixel p, for every curve class and direction
    for (ti, &t) in CLASS_REPS.iter().enumerate() {
        for (di, dir) in ["lin", "gam"].iter().enumerate() {
            let src: Vec<[f32; 3]> = (0..24).map(|i| [0.03 + 0.04 * i as f32, 0.97 - 0.035 * i as f32, 0.5 + 0.02 * (i as f32 - 12.0)]).collect();
            let mut echo: Vec<[f32; 3]> = Vec::new();
            for p in &src {
                if let Ok(q) = apply(t, dir, &[*p], 1, 1) {
                    if q.len() == 1 && q[0].iter().all(|x| (0.0..=1.0).contains(x)) {
                        echo.extend([*p, q[0], *p, *p, q[0], q[0]]);
                    }
                }
            }
            for (at, w, h) in cut_images(echo.len(), ti + di + 13) {
                let img = &echo[at..at + w * h];
                let mut s = String::new();
                let _ = write!(s, "\"ev\":\"tf\",\"echo\":1,\"tc\":{t},\"dir\":\"{dir}\",\"w\":{w},\"h\":{h},\"x\":");
                list(&mut s, img, px_fx);
                match apply(t, dir, img, w, h) {
                    Ok(out) => {
                        s.push_str(",\"res\":\"ok\",\"y\":");
                        list(&mut s, &out, px_fx);
                        if t == 8 {
                            s.push_str(",\"xb\":");
                            list(&mut s, img, px_bits);
                            s.push_str(",\"yb\":");
                            list(&mut s, &out, px_bits);
                        }
                    }
                    Err(e) => {
                        let _ = write!(s, ",\"res\":\"{e}\"");
                    }
                }
                sh.emit(&s);
                samples += 3 * img.len() as u64;
            }
        }
    }
    // large frames (size-dependent code paths: tables, threads, vector loops).  The interesting VALUES (branch points,
    // near-black ladders, mixed near-black pixels) are placed inside the big frame, at both ends; the rest is random
    // with a near-black admixture.  Only the probed positions are handed to TLC.
    for (ti, &t) in CLASS_REPS.iter().enumerate() {
        for (di, dir) in ["lin", "gam"].iter().enumerate() {
            let mut rng = Rng::new(o.seed, 0x0303_b160 + (ti * 2 + di) as u64);
            let (px, w, h, mut idx) = big_frame(o, &mut rng, ti + di);
            let whole = apply(t, dir, &px, w, h);
            crate::util::screen_idx(&mut idx, &whole, &px, &|c, cw, ch| apply(t, dir, c, cw, ch));
            emit_tf_probe(sh, "tf", t, dir, &px, w, h, &idx, whole);
            samples += 3 * idx.len() as u64;
            // more than 2^20 pixels (full HD, single row, single column, 2049x1025): every curve and direction gets one
            // shape per run (all four in thorough; every fifth pair in the thinned tier C20 uses)
            let shapes: Vec<usize> = if o.thorough { vec![0, 1, 2, 3, 4] } else if o.mini && (ti + di) % 5 != (o.seed as usize) % 5 { vec![] } else { vec![ti + di + o.seed as usize] };
            for k in shapes {
                let (hw, hh) = crate::util::huge(k);
                let (px, w, h, mut idx) = big_frame_wh(o, &mut rng, hw, hh);
                let whole = apply(t, dir, &px, w, h);
                crate::util::screen_idx(&mut idx, &whole, &px, &|c, cw, ch| apply(t, dir, c, cw, ch));
                emit_tf_probe(sh, "tf", t, dir, &px, w, h, &idx, whole);
                samples += 3 * idx.len() as u64;
            }
        }
    }
    // call-order histories on one thread: a large frame through curve a, then a large frame through curve b (every ordered
    // pair of curve classes, both directions); b is judged.  State that survives a call (caches, tables) shows here.
    for (ai, &a) in CLASS_REPS.iter().enumerate() {
        for (bi, &b) in CLASS_REPS.iter().enumerate() {
            if a == b || (!o.thorough && (ai + 2 * bi + (o.seed as usize)) % 3 != 0) {
                continue;
            }
            for (di, dir) in ["lin", "gam"].iter().enumerate() {
                let mut rng = Rng::new(o.seed, 0x0303_c000 + (ai * 40 + bi * 2 + di) as u64);
                let (px, w, h, idx) = big_frame(o, &mut rng, 0);
                let _ = apply(a, dir, &px, w, h);
                let few: Vec<usize> = idx.iter().copied().step_by(13).collect();
                emit_tf_probe(sh, "tf", b, dir, &px, w, h, &few, apply(b, dir, &px, w, h));
                samples += 3 * few.len() as u64;
            }
        }
    }
    // schedules: 8 threads converting at the same time in a fresh process (skipped in the thinned tier)
    if !o.mini {
        samples += 3 * 24 * conc_events(sh, o);
    }
    // aliases of BT.1886: bit-identical results on a shared input set (both directions)
    for (di, dir) in ["lin", "gam"].iter().enumerate() {
        let mut rng = Rng::new(o.seed, 0x0303_1000 + di as u64);
        let xs = base_inputs(o, &mut rng);
        let px = to_pixels(&xs);
        for (at, w, h) in cut_images(px.len(), 7 + di) {
            let img = &px[at..at + w * h];
            let mut s = String::new();
            let _ = write!(s, "\"ev\":\"tfa\",\"dir\":\"{dir}\",\"w\":{w},\"h\":{h},\"tcs\":[1,6,7,14,15],\"xb\":");
            list(&mut s, img, px_bits);
            s.push_str(",\"yb\":[");
            for (k, &t) in ALIASES.iter().enumerate() {
                if k > 0 {
                    s.push(',');
                }
                match apply(t, dir, img, w, h) {
                    Ok(out) => list(&mut s, &out, px_bits),
                    Err(e) => {
                        let _ = write!(s, "\"{e}\"");
                    }
                }
            }
            s.push(']');
            sh.emit(&s);
            samples += 3 * img.len() as u64 * 5;
        }
    }
    serde_json::json!({"samples": samples, "swept_by_screen": swept, "curve_direction_pairs": pairs + 8, "distinct": samples})
}

pub fn gen_c10(sh: &mut Shards, o: &Opts) -> serde_json::Value {
    let mut samples = 0u64;
    let mut swept = 0u64;
    for (ti, &t) in TC_SUP.iter().enumerate() {
        let mut rng = Rng::new(o.seed, 0x1010_0000 + ti as u64);
        let mut xs = base_inputs(o, &mut rng);
        // aliases get the base set only; class representatives also get the screened sweep
        if CLASS_REPS.contains(&t) {
            let (w, s) = screened(t, "lin", o, &mut rng, true);
            xs.extend(w);
            swept += s;
        }
        let mut px = to_pixels(&xs);
        px.extend(mixed_near_black());
        samples += 3 * px.len() as u64;
        for (at, w, h) in cut_images(px.len(), ti) {
            let img = &px[at..at + w * h];
            let mut s = String::new();
            let _ = write!(s, "\"ev\":\"tfrt\",\"tc\":{t},\"w\":{w},\"h\":{h},\"x\":");
            list(&mut s, img, px_fx);
            match apply(t, "lin", img, w, h).and_then(|m| apply(t, "gam", &m, w, h)) {
                Ok(out) => {
                    s.push_str(",\"res\":\"ok\",\"z\":");
                    list(&mut s, &out, px_fx);
                }
                Err(e) => {
                    let _ = write!(s, ",\"res\":\"{e}\"");
                }
            }
            sh.emit(&s);
        }
    }
    for (ti, &t) in TC_SUP.iter().enumerate() {
        let mut rng = Rng::new(o.seed, 0x1010_b160 + ti as u64);
        let (px, w, h, mut idx) = big_frame(o, &mut rng, ti);
        let whole = apply(t, "lin", &px, w, h).and_then(|m| apply(t, "gam", &m, w, h));
        crate::util::screen_idx(&mut idx, &whole, &px, &|c, cw, ch| apply(t, "lin", c, cw, ch).and_then(|m| apply(t, "gam", &m, cw, ch)));
        emit_tf_probe(sh, "tfrt", t, "rt", &px, w, h, &idx, whole);
        samples += 3 * idx.len() as u64;
        let shapes: Vec<usize> = if o.thorough { vec![0, 1, 2, 3, 4] } else if o.mini && ti % 5 != (o.seed as usize) % 5 { vec![] } else { vec![ti + 1 + o.seed as usize] };
        for k in shapes {
            let (hw, hh) = crate::util::huge(k);
            let (px, w, h, mut idx) = big_frame_wh(o, &mut rng, hw, hh);
            let whole = apply(t, "lin", &px, w, h).and_then(|m| apply(t, "gam", &m, w, h));
            crate::util::screen_idx(&mut idx, &whole, &px, &|c, cw, ch| apply(t, "lin", c, cw, ch).and_then(|m| apply(t, "gam", &m, cw, ch)));
            emit_tf_probe(sh, "tfrt", t, "rt", &px, w, h, &idx, whole);
            samples += 3 * idx.len() as u64;
        }
        // beyond UHD-1: one 4096x3072 frame (12.6 Mpx, a 151 MB buffer) for the two HDR curves and two more curves per run
        if !o.mini && (o.thorough || t == 16 || t == 18 || (ti + o.seed as usize) % 6 == 0) {
            let (px, w, h, mut idx) = big_frame_wh(o, &mut rng, 4096, 3072);
            let whole = apply(t, "lin", &px, w, h).and_then(|m| apply(t, "gam", &m, w, h));
            crate::util::screen_idx(&mut idx, &whole, &px, &|c, cw, ch| apply(t, "lin", c, cw, ch).and_then(|m| apply(t, "gam", &m, cw, ch)));
            emit_tf_probe(sh, "tfrt", t, "rt", &px, w, h, &idx, whole);
            samples += 3 * idx.len() as u64;
        }
        // echo images: each pixel followed by the library's own result for it and by repeats (a shortcut that compares a
        // sample with the previous OUTPUT, or run-length handling, shows as a wrong round trip)
        let src: Vec<[f32; 3]> = (0..24).map(|i| [0.03 + 0.04 * i as f32, 0.97 - 0.035 * i as f32, 0.5 + 0.02 * (i as f32 - 12.0)]).collect();
        for dir in ["lin", "gam"] {
            let mut echo: Vec<[f32; 3]> = Vec::new();
            for p in &src {
                if let Ok(q) = apply(t, dir, &[*p], 1, 1) {
                    if q.len() == 1 && q[0].iter().all(|x| (0.0..=1.0).contains(x)) {
                        echo.extend([*p, q[0], *p, *p, q[0], q[0]]);
                    }
                }
            }
            for (at, w, h) in cut_images(echo.len(), ti + 11) {
                let img = &echo[at..at + w * h];
                let mut s = String::new();
                let _ = write!(s, "\"ev\":\"tfrt\",\"echo\":1,\"tc\":{t},\"w\":{w},\"h\":{h},\"x\":");
                list(&mut s, img, px_fx);
                match apply(t, "lin", img, w, h).and_then(|m| apply(t, "gam", &m, w, h)) {
                    Ok(out) => {
                        s.push_str(",\"res\":\"ok\",\"z\":");
                        list(&mut s, &out, px_fx);
                    }
                    Err(e) => {
                        let _ = write!(s, ",\"res\":\"{e}\"");
                    }
                }
                sh.emit(&s);
                samples += 3 * img.len() as u64;
            }
        }
    }
    // call-order histories: a large round trip through curve a, then through curve b; b is judged
    for (ai, &a) in CLASS_REPS.iter().enumerate() {
        for (bi, &b) in CLASS_REPS.iter().enumerate() {
            if a == b || (!o.thorough && (ai + 2 * bi + (o.seed as usize)) % 3 != 1) {
                continue;
            }
            let mut rng = Rng::new(o.seed, 0x1010_c000 + (ai * 40 + bi) as u64);
            let (px, w, h, idx) = big_frame(o, &mut rng, 0);
            let _ = apply(a, "lin", &px, w, h).and_then(|m| apply(a, "gam", &m, w, h));
            let few: Vec<usize> = idx.iter().copied().step_by(13).collect();
            emit_tf_probe(sh, "tfrt", b, "rt", &px, w, h, &few, apply(b, "lin", &px, w, h).and_then(|m| apply(b, "gam", &m, w, h)));
            samples += 3 * few.len() as u64;
        }
    }
    serde_json::json!({"samples": samples, "swept_by_screen": swept, "curves": TC_SUP.len(), "distinct": samples})
}

/// C16: every curve, both directions, on the anchors 0 and 1 (mixed into small images)
pub fn gen_c16_tf(sh: &mut Shards, _o: &Opts) -> u64 {
    let mut n = 0;
    for &t in &TC_SUP {
        for dir in ["lin", "gam"] {
            for (w, h, px) in [(1usize, 1usize, vec![[0.0f32, 1.0, 0.0]]), (2, 1, vec![[1.0, 1.0, 1.0], [0.0, 0.0, 0.0]]), (3, 1, vec![[0.0, 0.0, 1.0], [1.0, 0.0, 1.0], [0.0, 1.0, 1.0]])] {
                let mut s = String::new();
                let _ = write!(s, "\"ev\":\"tfanchor\",\"tc\":{t},\"dir\":\"{dir}\",\"w\":{w},\"h\":{h},\"x\":");
                list(&mut s, &px, px_fx);
                match apply(t, dir, &px, w, h) {
                    Ok(out) => {
                        s.push_str(",\"res\":\"ok\",\"y\":");
                        list(&mut s, &out, px_fx);
                    }
                    Err(e) => {
                        let _ = write!(s, ",\"res\":\"{e}\"");
                    }
                }
                sh.emit(&s);
                n += 3 * px.len() as u64;
            }
        }
    }
    n
}
