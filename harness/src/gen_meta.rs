//! C14: the outcome of every conversion for every fully specified (matrix, transfer, primaries) triple.

use std::fmt::Write as _;
use std::panic::{catch_unwind, AssertUnwindSafe};

use yuvxyb::{Hsl, LinearRgb, Rgb, Xyb, Yuv};

use crate::frames::{err_name_conv, plane_samples, yuv444, Cfg};
use crate::util::{cp, list, px_bits, tc, Shards, CP_ALL, MC_ALL, TC_ALL};
use crate::Opts;

fn guard<T>(f: impl FnOnce() -> Result<T, yuvxyb::ConversionError>) -> (String, Option<T>) {
    match catch_unwind(AssertUnwindSafe(f)) {
        Ok(Ok(v)) => ("ok".to_string(), Some(v)),
        Ok(Err(e)) => (err_name_conv(e).to_string(), None),
        Err(_) => ("panic".to_string(), None),
    }
}

/// the constructor is part of the path from a caller's frame to a converted image: if it rejects the configuration the
/// outcome is recorded as "ctor:<error>" (data for TLC, which accepts only "ok" or a ConversionError), never a harness crash
fn guard_y<T: yuvxyb::Pixel, R>(mk: impl FnOnce() -> Result<Yuv<T>, yuvxyb::YuvError>, f: impl FnOnce(&Yuv<T>) -> Result<R, yuvxyb::ConversionError>) -> (String, Option<R>) {
    match catch_unwind(AssertUnwindSafe(mk)) {
        Ok(Ok(y)) => guard(|| f(&y)),
        Ok(Err(e)) => (format!("ctor:{}", crate::frames::err_name_yuv(e)), None),
        Err(_) => ("panic".to_string(), None),
    }
}

// nominal, foot-room and head-room codes; in-gamut and out-of-gamut RGB (the stages that do not use a label must ignore
// it for all of them)
const YUV_PX: [[u16; 3]; 4] = [[16, 128, 128], [250, 3, 252], [5, 252, 3], [145, 54, 34]];
const RGB_PX: [[f32; 3]; 4] = [[0.0, 0.0, 0.0], [1.0, 1.0, 1.0], [1.25, -0.125, 0.5], [0.1, 0.6, 0.9]];

fn y2r(c: &Cfg) -> (String, Option<Rgb>) {
    guard_y(|| yuv444::<u8>(&YUV_PX, 2, 2, c), |y| Rgb::try_from(y))
}
fn r2y(c: &Cfg, t: u8, p: u8) -> (String, Option<Yuv<u8>>) {
    let r = Rgb::new(RGB_PX.to_vec(), 2, 2, tc(t), cp(p)).expect("rgb");
    guard(|| Yuv::<u8>::try_from((&r, c.yuv_config())))
}

pub fn gen_c14(sh: &mut Shards, o: &Opts) -> serde_json::Value {
    let prev = std::panic::take_hook();
    std::panic::set_hook(Box::new(|_| {}));
    let mut n = 0u64;
    // every triple twice: once in enumeration order, once in a seeded random order (outcomes must not depend on what
    // was converted before; the table's completeness is checked by TLC on the set of triples)
    let mut triples: Vec<(u8, u8, u8)> = Vec::new();
    for &m in MC_ALL.iter().filter(|&&x| x != 2) {
        for &t in TC_ALL.iter().filter(|&&x| x != 2) {
            for &p in CP_ALL.iter().filter(|&&x| x != 2) {
                triples.push((m, t, p));
            }
        }
    }
    let mut shuffled = triples.clone();
    let mut rng = crate::util::Rng::new(o.seed, 0x1414);
    for i in (1..shuffled.len()).rev() {
        let j = rng.below(i as u64 + 1) as usize;
        shuffled.swap(i, j);
    }
    triples.extend(shuffled);
    // two more passes ordered by packed keys (configurations whose keys collide in a too-narrow packing become adjacent)
    let base: Vec<(u8, u8, u8)> = triples[..triples.len() / 2].to_vec();
    let mut by_k1 = base.clone();
    by_k1.sort_by_key(|&(m, t, p)| ((u32::from(m) * 16 + u32::from(p)) & 0xff, t));
    let mut by_k2 = base.clone();
    by_k2.sort_by_key(|&(m, t, p)| (((u32::from(p) << 4) | u32::from(t)) & 0xff, m));
    triples.extend(by_k1);
    triples.extend(by_k2);
    // reference outputs per matrix code (labels BT.1886 / BT.709), computed once up front so that inside the table the
    // last conversion of one row and the first of the next are both the rows' OWN configurations (call adjacency)
    let refs: Vec<(Option<Rgb>, Option<Yuv<u8>>)> = (0u8..15)
        .map(|m| {
            let cref = Cfg { mc: m, tc: 1, cp: 1, full: false, n: 8, ssx: 0, ssy: 0 };
            (y2r(&cref).1, r2y(&cref, 1, 1).1)
        })
        .collect();
    {
        {
            for &(m, t, p) in &triples {
                let c = Cfg { mc: m, tc: t, cp: p, full: false, n: 8, ssx: 0, ssy: 0 };
                let yuv = || yuv444::<u8>(&YUV_PX, 2, 2, &c);
                let rgb = || Rgb::new(RGB_PX.to_vec(), 2, 2, tc(t), cp(p)).expect("rgb");
                let lin = || LinearRgb::new(RGB_PX.to_vec(), 2, 2).expect("lin");
                let xyb = || Xyb::from(lin());
                let (ref_y2r, ref_r2y) = &refs[m as usize];
                let mut s = String::new();
                let _ = write!(s, "\"ev\":\"c14row\",\"mc\":{m},\"tc\":{t},\"cp\":{p},\"res\":{{");
                let (a, out_y2r) = y2r(&c);
                let _ = write!(s, "\"YuvToRgb\":\"{a}\"");
                let (a, out_r2y) = r2y(&c, t, p);
                let _ = write!(s, ",\"RgbToYuv\":\"{a}\"");
                let _ = write!(s, ",\"YuvToLin\":\"{}\"", guard_y(yuv, |y| LinearRgb::try_from(y)).0);
                let _ = write!(s, ",\"YuvToXyb\":\"{}\"", guard_y(yuv, |y| Xyb::try_from(y)).0);
                let _ = write!(s, ",\"RgbToLin\":\"{}\"", guard(|| LinearRgb::try_from(rgb())).0);
                let _ = write!(s, ",\"RgbToXyb\":\"{}\"", guard(|| Xyb::try_from(rgb())).0);
                let _ = write!(s, ",\"LinToRgb\":\"{}\"", guard(|| Rgb::try_from((lin(), tc(t), cp(p)))).0);
                let _ = write!(s, ",\"XybToRgb\":\"{}\"", guard(|| Rgb::try_from((xyb(), tc(t), cp(p)))).0);
                let _ = write!(s, ",\"LinToYuv\":\"{}\"", guard(|| Yuv::<u8>::try_from((lin(), c.yuv_config()))).0);
                let _ = write!(s, ",\"XybToYuv\":\"{}\"", guard(|| Yuv::<u8>::try_from((xyb(), c.yuv_config()))).0);
                let _ = write!(s, ",\"LinToXyb\":\"{}\"", guard(|| Ok(Xyb::from(lin()))).0);
                let _ = write!(s, ",\"XybToLin\":\"{}\"", guard(|| Ok(LinearRgb::from(xyb()))).0);
                let _ = write!(s, ",\"LinToHsl\":\"{}\"", guard(|| Ok(Hsl::from(lin()))).0);
                let _ = write!(s, ",\"HslToLin\":\"{}\"", guard(|| Ok(LinearRgb::from(Hsl::from(lin())))).0);
                s.push('}');
                // raw outputs of the matrix stage for this triple and for the same matrix with (BT1886, BT709)
                let jr = |s: &mut String, k: &str, v: &Option<Rgb>| {
                    let _ = write!(s, ",\"{k}\":");
                    match v {
                        Some(r) => list(s, r.data(), px_bits),
                        None => s.push_str("[]"),
                    }
                };
                let jy = |s: &mut String, k: &str, v: &Option<Yuv<u8>>| {
                    let _ = write!(s, ",\"{k}\":");
                    match v {
                        Some(y) => {
                            let all: Vec<u16> = (0..3).flat_map(|p| plane_samples(y, p)).collect();
                            list(s, &all, |o, x| {
                                let _ = write!(o, "{x}");
                            });
                        }
                        None => s.push_str("[]"),
                    }
                };
                jr(&mut s, "y2r", &out_y2r);
                jr(&mut s, "y2r_ref", ref_y2r);
                jy(&mut s, "r2y", &out_r2y);
                jy(&mut s, "r2y_ref", ref_r2y);
                sh.emit(&s);
                n += 1;
            }
        }
    }
    // the same table on LARGE frames (>= 2^20 pixels) for a slice of the triple space: every transfer x {BT709, Reserved}
    // primaries x {BT709, Reserved, Identity} matrices (size-dependent dispatch must not change outcomes)
    let (bw, bh) = (1025usize, 1024usize);
    let big_rgb: Vec<[f32; 3]> = (0..bw * bh).map(|i| RGB_PX[i % 4]).collect();
    let big_yuv: Vec<[u16; 3]> = (0..bw * bh).map(|i| YUV_PX[i % 4]).collect();
    for &t in TC_ALL.iter().filter(|&&x| x != 2) {
        for &p in &[1u8, 3] {
            for &m in &[1u8, 3, 0] {
                if o.thorough || (t + p + m) % 2 == 0 {
                    let c = Cfg { mc: m, tc: t, cp: p, full: false, n: 8, ssx: 0, ssy: 0 };
                    let yuv = || yuv444::<u8>(&big_yuv, bw, bh, &c);
                    let rgb = || Rgb::new(big_rgb.clone(), bw, bh, tc(t), cp(p)).expect("rgb");
                    let lin = || LinearRgb::new(big_rgb.clone(), bw, bh).expect("lin");
                    let xyb = || Xyb::from(lin());
                    let mut s = String::new();
                    let _ = write!(s, "\"ev\":\"c14row\",\"big\":1,\"mc\":{m},\"tc\":{t},\"cp\":{p},\"res\":{{");
                    let _ = write!(s, "\"YuvToRgb\":\"{}\"", guard_y(yuv, |y| Rgb::try_from(y)).0);
                    let _ = write!(s, ",\"RgbToYuv\":\"{}\"", guard(|| Yuv::<u8>::try_from((&rgb(), c.yuv_config()))).0);
                    let _ = write!(s, ",\"YuvToLin\":\"{}\"", guard_y(yuv, |y| LinearRgb::try_from(y)).0);
                    let _ = write!(s, ",\"YuvToXyb\":\"{}\"", guard_y(yuv, |y| Xyb::try_from(y)).0);
                    let _ = write!(s, ",\"RgbToLin\":\"{}\"", guard(|| LinearRgb::try_from(rgb())).0);
                    let _ = write!(s, ",\"RgbToXyb\":\"{}\"", guard(|| Xyb::try_from(rgb())).0);
                    let _ = write!(s, ",\"LinToRgb\":\"{}\"", guard(|| Rgb::try_from((lin(), tc(t), cp(p)))).0);
                    let _ = write!(s, ",\"XybToRgb\":\"{}\"", guard(|| Rgb::try_from((xyb(), tc(t), cp(p)))).0);
                    let _ = write!(s, ",\"LinToYuv\":\"{}\"", guard(|| Yuv::<u8>::try_from((lin(), c.yuv_config()))).0);
                    let _ = write!(s, ",\"XybToYuv\":\"{}\"", guard(|| Yuv::<u8>::try_from((xyb(), c.yuv_config()))).0);
                    let _ = write!(s, ",\"LinToXyb\":\"{}\"", guard(|| Ok(Xyb::from(lin()))).0);
                    let _ = write!(s, ",\"XybToLin\":\"{}\"", guard(|| Ok(LinearRgb::from(xyb()))).0);
                    let _ = write!(s, ",\"LinToHsl\":\"{}\"", guard(|| Ok(Hsl::from(lin()))).0);
                    let _ = write!(s, ",\"HslToLin\":\"{}\"", guard(|| Ok(LinearRgb::from(Hsl::from(lin())))).0);
                    s.push('}');
                    sh.emit(&s);
                    n += 1;
                }
            }
        }
    }
    // the table on OTHER layouts / depths / ranges for a slice of the triple space (every matrix x 5 transfers x 3 primaries):
    // support, symmetry and the error named must not depend on subsampling, bit depth or range, and the matrix stage must
    // ignore transfer and primaries also for foot-/head-room codes and out-of-gamut RGB
    for &(nb, full, ssx, ssy) in &[(8u8, false, 1u8, 1u8), (8, true, 1, 0), (10, false, 1, 1), (10, false, 0, 0), (12, true, 1, 0), (16, false, 1, 1)] {
        if nb == 8 {
            n += layout_rows::<u8>(sh, nb, full, ssx, ssy, false);
        } else {
            n += layout_rows::<u16>(sh, nb, full, ssx, ssy, false);
        }
    }
    // ... and on pictures whose chroma is neutral everywhere (a decoder's greyscale shortcut must not skip the validation of
    // the metadata: support stays symmetric and the errors stay the same)
    n += layout_rows::<u8>(sh, 8, false, 0, 0, true);
    n += layout_rows::<u16>(sh, 10, true, 1, 1, true);
    std::panic::set_hook(prev);
    serde_json::json!({"triples": n, "calls": n * 18, "distinct": n})
}

const LAY_RGB: [[f32; 3]; 8] =
    [[0.0, 0.0, 0.0], [1.0, 1.0, 1.0], [0.75, 0.25, 0.5], [0.1, 0.6, 0.9], [1.25, -0.125, 0.5], [-0.25, 1.5, 0.0], [0.5, 0.5, 0.5], [0.0, 1.0, 2.0]];
/// 4x2 picture with nominal, foot-room and head-room codes (8-bit values scaled to the depth; the extremes 0 / max too)
fn lay_yuv(nb: u8) -> Vec<[u16; 3]> {
    let k = u32::from(nb) - 8;
    let max = ((1u32 << nb) - 1) as u16;
    let s = |v: u32| (v << k) as u16;
    vec![
        [s(16), s(128), s(128)],
        [s(235), s(3), s(252)],
        [s(5), s(90), s(240)],
        [s(250), s(54), s(34)],
        [0, max, 0],
        [max, 0, max],
        [s(81), s(128), s(128)],
        [s(145), s(252), s(3)],
    ]
}
fn layout_rows<T: yuvxyb::Pixel>(sh: &mut Shards, nb: u8, full: bool, ssx: u8, ssy: u8, grey: bool) -> u64 {
    let (w, h) = (4usize, 2usize);
    let mut ypx = lay_yuv(nb);
    if grey {
        for p in ypx.iter_mut() {
            p[1] = 1u16 << (nb - 1);
            p[2] = 1u16 << (nb - 1);
        }
    }
    let y2r = |c: &Cfg| -> (String, Option<Rgb>) {
        guard_y(|| yuv444::<T>(&ypx, w, h, c), |y| Rgb::try_from(y))
    };
    let r2y = |c: &Cfg, t: u8, p: u8| -> (String, Option<Yuv<T>>) {
        let r = Rgb::new(LAY_RGB.to_vec(), w, h, tc(t), cp(p)).expect("rgb");
        guard(|| Yuv::<T>::try_from((&r, c.yuv_config())))
    };
    let refs: Vec<(Option<Rgb>, Option<Yuv<T>>)> = (0u8..15)
        .map(|m| {
            let cref = Cfg { mc: m, tc: 1, cp: 1, full, n: nb, ssx, ssy };
            (y2r(&cref).1, r2y(&cref, 1, 1).1)
        })
        .collect();
    let mut n = 0;
    for &m in MC_ALL.iter().filter(|&&x| x != 2) {
        for &t in &[1u8, 11, 13, 3, 16] {
            for &p in &[1u8, 9, 3] {
                let c = Cfg { mc: m, tc: t, cp: p, full, n: nb, ssx, ssy };
                let yuv = || yuv444::<T>(&ypx, w, h, &c);
                let rgb = || Rgb::new(LAY_RGB.to_vec(), w, h, tc(t), cp(p)).expect("rgb");
                let lin = || LinearRgb::new(LAY_RGB.to_vec(), w, h).expect("lin");
                let xyb = || Xyb::from(lin());
                let (ref_y2r, ref_r2y) = &refs[m as usize];
                let mut s = String::new();
                let _ = write!(s, "\"ev\":\"c14row\",\"lay\":[{nb},{},{ssx},{ssy},{}],\"mc\":{m},\"tc\":{t},\"cp\":{p},\"res\":{{", u8::from(full), u8::from(grey));
                let (a, out_y2r) = y2r(&c);
                let _ = write!(s, "\"YuvToRgb\":\"{a}\"");
                let (a, out_r2y) = r2y(&c, t, p);
                let _ = write!(s, ",\"RgbToYuv\":\"{a}\"");
                let _ = write!(s, ",\"YuvToLin\":\"{}\"", guard_y(yuv, |y| LinearRgb::try_from(y)).0);
                let _ = write!(s, ",\"YuvToXyb\":\"{}\"", guard_y(yuv, |y| Xyb::try_from(y)).0);
                let _ = write!(s, ",\"RgbToLin\":\"{}\"", guard(|| LinearRgb::try_from(rgb())).0);
                let _ = write!(s, ",\"RgbToXyb\":\"{}\"", guard(|| Xyb::try_from(rgb())).0);
                let _ = write!(s, ",\"LinToRgb\":\"{}\"", guard(|| Rgb::try_from((lin(), tc(t), cp(p)))).0);
                let _ = write!(s, ",\"XybToRgb\":\"{}\"", guard(|| Rgb::try_from((xyb(), tc(t), cp(p)))).0);
                let _ = write!(s, ",\"LinToYuv\":\"{}\"", guard(|| Yuv::<T>::try_from((lin(), c.yuv_config()))).0);
                let _ = write!(s, ",\"XybToYuv\":\"{}\"", guard(|| Yuv::<T>::try_from((xyb(), c.yuv_config()))).0);
                let _ = write!(s, ",\"LinToXyb\":\"{}\"", guard(|| Ok(Xyb::from(lin()))).0);
                let _ = write!(s, ",\"XybToLin\":\"{}\"", guard(|| Ok(LinearRgb::from(xyb()))).0);
                let _ = write!(s, ",\"LinToHsl\":\"{}\"", guard(|| Ok(Hsl::from(lin()))).0);
                let _ = write!(s, ",\"HslToLin\":\"{}\"", guard(|| Ok(LinearRgb::from(Hsl::from(lin())))).0);
                s.push('}');
                for (k, v) in [("y2r", &out_y2r), ("y2r_ref", ref_y2r)] {
                    let _ = write!(s, ",\"{k}\":");
                    match v {
                        Some(r) => list(&mut s, r.data(), px_bits),
                        None => s.push_str("[]"),
                    }
                }
                for (k, v) in [("r2y", &out_r2y), ("r2y_ref", ref_r2y)] {
                    let _ = write!(s, ",\"{k}\":");
                    match v {
                        Some(y) => {
                            let all: Vec<u16> = (0..3).flat_map(|p| plane_samples(y, p)).collect();
                            list(&mut s, &all, |o, x| {
                                let _ = write!(o, "{x}");
                            });
                        }
                        None => s.push_str("[]"),
                    }
                }
                sh.emit(&s);
                n += 1;
            }
        }
    }
    n
}
