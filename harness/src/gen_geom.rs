//! Frame-geometry traces (C07, C12): every frame of the plan that TLC printed (MC_Geom!Plan) is built with
//! Plane::new, offered to Yuv::new, and - when accepted - decoded with the unsafe-site hooks in Summary
//! mode.  Transport is one event per family (luma size, sample type, subsampling, paddings, which plane
//! is free) carrying one compact cell per free-plane variant in the canonical order of the plan.

use std::fmt::Write as _;
use std::panic::{catch_unwind, AssertUnwindSafe};

use serde_json::Value;
use yuvxyb::{CastFromPrimitive, Frame, Hsl, LinearRgb, Pixel, Plane, Rgb, Xyb, Yuv, YuvConfig, YuvError};
use yuvxyb_math::verif_hooks as hooks;

use crate::frames::{make_plane, Cfg, PlaneGeom};
use crate::util::{cp, list, px_bits, tc, Rng, Shards};
use crate::Opts;

fn rc_of(e: YuvError) -> u8 {
    match e {
        YuvError::SubsamplingMismatch => 1,
        YuvError::InvalidLumaWidth => 2,
        YuvError::InvalidLumaHeight => 3,
        YuvError::InvalidData => 4,
        #[allow(unreachable_patterns)]
        _ => 8,
    }
}

fn ints(v: &Value, k: &str) -> Vec<usize> {
    v[k].as_array().expect("plan array").iter().map(|x| x.as_u64().expect("int") as usize).collect()
}

fn hook_cells(s: &mut String) {
    // fixed site order: dec_out, dec_y, dec_u, dec_v -> n, bad, max idx, slice len
    let sums = hooks::drain_summaries();
    for site in ["dec_out", "dec_y", "dec_u", "dec_v"] {
        match sums.iter().find(|h| h.site == site) {
            Some(h) => {
                let _ = write!(s, ",{},{},{},{}", h.count, h.bad, h.max_a, if h.min_b == u64::MAX { 0 } else { h.min_b });
            }
            None => s.push_str(",0,0,0,0"),
        }
    }
}

fn try_frame<T: Pixel>(g: [PlaneGeom; 3], cfg: YuvConfig, s: &mut String, fill: u16) {
    let r = catch_unwind(AssertUnwindSafe(|| {
        let planes: [Plane<T>; 3] = [make_plane::<T>(g[0], Some(fill), |_, _| fill), make_plane::<T>(g[1], Some(fill), |_, _| fill), make_plane::<T>(g[2], Some(fill), |_, _| fill)];
        Yuv::new(Frame { planes }, cfg)
    }));
    match r {
        Err(_) => s.push_str(",9"),
        Ok(Err(e)) => {
            let _ = write!(s, ",{}", rc_of(e));
        }
        Ok(Ok(yuv)) => {
            s.push_str(",0");
            hooks::enable(hooks::Mode::Summary);
            let d = catch_unwind(AssertUnwindSafe(|| Rgb::try_from(&yuv).map(|r| r.data().len())));
            match d {
                Ok(Ok(n)) => {
                    let _ = write!(s, ",0,{n}");
                }
                Ok(Err(_)) => s.push_str(",1,0"),
                Err(_) => s.push_str(",9,0"),
            }
            hook_cells(s);
            hooks::enable(hooks::Mode::Off);
        }
    }
}

pub fn gen_geom(sh: &mut Shards, o: &Opts, plan_path: &str) -> serde_json::Value {
    let plan: Value = serde_json::from_str(&std::fs::read_to_string(plan_path).expect("plan file")).expect("plan json");
    let (lw, lh, cw, ch, decs, pads, sts) = (ints(&plan, "lw"), ints(&plan, "lh"), ints(&plan, "cw"), ints(&plan, "ch"), ints(&plan, "decs"), ints(&plan, "pads"), ints(&plan, "sts"));
    let ss: Vec<(usize, usize)> = plan["ss"].as_array().expect("ss").iter().map(|p| (p[0].as_u64().unwrap() as usize, p[1].as_u64().unwrap() as usize)).collect();
    let prev = std::panic::take_hook();
    std::panic::set_hook(Box::new(|_| {}));
    let mut frames = 0u64;
    let mut accepted = 0u64;
    let _ = o;
    for &w in &lw {
        for &h in &lh {
            for &st in &sts {
                for &(sx, sy) in &ss {
                    for &lp in &pads {
                        for &op in &pads {
                            for which in [2usize, 3, 4] {
                                let n: u8 = if st == 8 { 8 } else { 10 };
                                let cfg = Cfg { mc: 1, tc: 1, cp: 1, full: false, n, ssx: sx as u8, ssy: sy as u8 };
                                let mut s = String::new();
                                let _ = write!(s, "\"ev\":\"geom\",\"st\":{st},\"ssx\":{sx},\"ssy\":{sy},\"n\":{n},\"lw\":{w},\"lh\":{h},\"lp\":{lp},\"op\":{op},\"which\":{which},\"cells\":[");
                                let implied = PlaneGeom { w: w >> sx, h: h >> sy, xdec: sx, ydec: sy, xpad: op, ypad: op };
                                let luma = PlaneGeom { w, h, xdec: 0, ydec: 0, xpad: lp, ypad: lp };
                                let mut first = true;
                                for &fw in &cw {
                                    for &fh in &ch {
                                        for &xd in &decs {
                                            for &yd in &decs {
                                                for &xp in &pads {
                                                    let free = PlaneGeom { w: fw, h: fh, xdec: xd, ydec: yd, xpad: xp, ypad: xp };
                                                    let g = [luma, if which != 3 { free } else { implied }, if which != 2 { free } else { implied }];
                                                    if !first {
                                                        s.push(',');
                                                    }
                                                    first = false;
                                                    let _ = write!(s, "[{fw},{fh},{xd},{yd},{xp}");
                                                    let before = s.len();
                                                    if st == 8 {
                                                        try_frame::<u8>(g, cfg.yuv_config(), &mut s, 100);
                                                    } else {
                                                        try_frame::<u16>(g, cfg.yuv_config(), &mut s, 100);
                                                    }
                                                    if s[before..].starts_with(",0") {
                                                        accepted += 1;
                                                    }
                                                    s.push(']');
                                                    frames += 1;
                                                }
                                            }
                                        }
                                    }
                                }
                                s.push(']');
                                sh.emit(&s);
                            }
                        }
                    }
                }
            }
        }
    }
    std::panic::set_hook(prev);
    serde_json::json!({"frames": frames, "accepted": accepted, "calls": frames + accepted, "distinct": frames})
}

// ------------------------------------------------------------------------------------------
/// C12 (data part): one out-of-range (or boundary) sample at any position of any plane, padding included.
/// C12 (verbatim): accepted frames expose exactly what they were given.
pub fn gen_c12_data(sh: &mut Shards, o: &Opts) -> serde_json::Value {
    let prev = std::panic::take_hook();
    std::panic::set_hook(Box::new(|_| {}));
    let mut rng = Rng::new(o.seed, 0x1212);
    let mut n_ev = 0u64;
    let sizes: &[(usize, usize)] = if o.thorough { &[(1, 1), (2, 2), (3, 2), (4, 4), (6, 4), (8, 8), (12, 12)] } else { &[(1, 1), (2, 2), (4, 2), (4, 4)] };
    for &(w, h) in sizes {
        for (sx, sy) in [(0usize, 0usize), (1, 1), (1, 0), (2, 2), (0, 1), (2, 0)] {
            if w % (1 << sx) != 0 || h % (1 << sy) != 0 {
                continue;
            }
            // horizontal and vertical padding independently (and differently per plane)
            for (pi, &(xp, yp)) in [(0usize, 0usize), (1, 1), (1, 0), (0, 1), (17, 0)].iter().enumerate() {
                let pad = xp.max(yp);
                for n in 8u8..=16 {
                    if pi >= 2 && n % 3 != (pi as u8) % 3 {
                        continue;
                    }
                    let cfg = Cfg { mc: 1, tc: 1, cp: 1, full: rng.below(2) == 0, n, ssx: sx as u8, ssy: sy as u8 };
                    let g = [
                        PlaneGeom { w, h, xdec: 0, ydec: 0, xpad: xp, ypad: yp },
                        PlaneGeom { w: w >> sx, h: h >> sy, xdec: sx, ydec: sy, xpad: yp, ypad: xp.min(2) },
                        PlaneGeom { w: w >> sx, h: h >> sy, xdec: sx, ydec: sy, xpad: xp, ypad: yp },
                    ];
                    let legal_max = ((1u32 << n) - 1) as u16;
                    // cells: [plane, px, py (position in the ALLOCATED array), visible-x, visible-y (or -1), value, rc]
                    let mut s = String::new();
                    let _ = write!(s, "\"ev\":\"geomdata\",\"st\":16,\"n\":{n},\"ssx\":{sx},\"ssy\":{sy},\"w\":{w},\"h\":{h},\"pad\":{pad},\"cells\":[");
                    let mut first = true;
                    for pl in 0..3usize {
                        let probe: Plane<u16> = Plane::new(g[pl].w, g[pl].h, g[pl].xdec, g[pl].ydec, g[pl].xpad, g[pl].ypad);
                        let (stride, ah, xo, yo) = (probe.cfg.stride, probe.cfg.alloc_height, probe.cfg.xorigin, probe.cfg.yorigin);
                        // all positions of small allocations are too many with 32-sample strides: visit the visible
                        // samples, a ring of padding around them, and the row ends
                        let mut pos: Vec<(usize, usize)> = Vec::new();
                        for ay in 0..ah {
                            for ax in 0..stride {
                                let near = ax + 1 >= xo && ax <= xo + g[pl].w && ay + 1 >= yo && ay <= yo + g[pl].h;
                                if near || ax == stride - 1 || ax == 0 {
                                    pos.push((ax, ay));
                                }
                            }
                        }
                        for (ax, ay) in pos {
                            for val in [legal_max, legal_max.wrapping_add(1), 65535u16] {
                                if n == 16 && val == 0 {
                                    continue;
                                }
                                let r = catch_unwind(AssertUnwindSafe(|| {
                                    let mut planes: [Plane<u16>; 3] = [
                                        make_plane::<u16>(g[0], Some(1), |_, _| 1),
                                        make_plane::<u16>(g[1], Some(1), |_, _| 1),
                                        make_plane::<u16>(g[2], Some(1), |_, _| 1),
                                    ];
                                    planes[pl].data[ay * stride + ax] = val;
                                    Yuv::new(Frame { planes }, cfg.yuv_config()).map(|_| ())
                                }));
                                let rc = match r {
                                    Err(_) => 9,
                                    Ok(Ok(())) => 0,
                                    Ok(Err(e)) => rc_of(e),
                                };
                                let vx = ax as i64 - xo as i64;
                                let vy = ay as i64 - yo as i64;
                                if !first {
                                    s.push(',');
                                }
                                first = false;
                                let _ = write!(s, "[{},{vx},{vy},{},{},{val},{rc}]", pl + 1, g[pl].w, g[pl].h);
                            }
                        }
                    }
                    s.push(']');
                    sh.emit(&s);
                    n_ev += 1;
                }
                // u8 storage: every byte value is legal at depth 8
                let cfg = Cfg { mc: 1, tc: 1, cp: 1, full: false, n: 8, ssx: sx as u8, ssy: sy as u8 };
                let g8 = |k: usize| PlaneGeom { w: if k == 0 { w } else { w >> sx }, h: if k == 0 { h } else { h >> sy }, xdec: if k == 0 { 0 } else { sx }, ydec: if k == 0 { 0 } else { sy }, xpad: pad, ypad: pad };
                let r = catch_unwind(AssertUnwindSafe(|| {
                    let planes: [Plane<u8>; 3] = [make_plane::<u8>(g8(0), Some(255), |_, _| 255), make_plane::<u8>(g8(1), Some(255), |_, _| 0), make_plane::<u8>(g8(2), Some(255), |_, _| 255)];
                    Yuv::new(Frame { planes }, cfg.yuv_config()).map(|_| ())
                }));
                let rc = match r {
                    Err(_) => 9,
                    Ok(Ok(())) => 0,
                    Ok(Err(e)) => rc_of(e),
                };
                sh.emit(&format!("\"ev\":\"geomdata\",\"st\":8,\"n\":8,\"ssx\":{sx},\"ssy\":{sy},\"w\":{w},\"h\":{h},\"pad\":{pad},\"cells\":[[1,0,0,{w},{h},255,{rc}]]"));
                n_ev += 1;
            }
        }
    }
    // verbatim: accepted frames expose exactly the samples, dimensions and (resolved) config they were given.  Also widths at
    // which a plane is exactly contiguous (stride == width: 32 / 64 / 128 samples), horizontal and vertical padding chosen
    // independently, padding filled with a value ABOVE 2^n - 1 (only visible samples count), and a luma plane that
    // carries a decimation tag of its own (the statement constrains the chroma planes' decimation only)
    let vsizes: Vec<(usize, usize)> = sizes.iter().copied().chain([(32usize, 4usize), (64, 2), (128, 8), (96, 4)]).collect();
    for &(w, h) in &vsizes {
        for (sx, sy) in [(0usize, 0usize), (1, 1), (1, 0), (2, 2)] {
            if w % (1 << sx) != 0 || h % (1 << sy) != 0 {
                continue;
            }
            for st in [8u8, 16] {
                for (xpad, ypad) in [(0usize, 0usize), (1, 1), (17, 17), (0, 3), (5, 0)] {
                    let pad = xpad.max(ypad);
                    // drawn independently of the loop counters (a modular pick would tie "16-bit storage, vertical padding only"
                    // to "in-range padding contents" for ever)
                    let (lxd, lyd) = [(0usize, 0usize), (0, 0), (1, 1), (0, 2), (1, 0)][rng.below(5) as usize];
                    let poison: u16 = if rng.below(3) == 0 { 7 } else { 0xffff };
                    let n: u8 = if st == 8 { 8 } else { [9u8, 10, 12, 16][rng.below(4) as usize] };
                    let cfg = Cfg { mc: [1u8, 5, 9, 2][rng.below(4) as usize], tc: [1u8, 13, 2][rng.below(3) as usize], cp: [1u8, 9, 2][rng.below(3) as usize], full: rng.below(2) == 0, n, ssx: sx as u8, ssy: sy as u8 };
                    let mut given: [Vec<u16>; 3] = [Vec::new(), Vec::new(), Vec::new()];
                    let dims = [(w, h), (w >> sx, h >> sy), (w >> sx, h >> sy)];
                    for k in 0..3 {
                        for _ in 0..dims[k].0 * dims[k].1 {
                            given[k].push(rng.below(1u64 << n) as u16);
                        }
                    }
                    let mut s = String::new();
                    let _ = write!(s, "\"ev\":\"verb\",\"kind\":\"yuv\",\"st\":{st},\"w\":{w},\"h\":{h},\"pad\":{pad},\"cfg\":{},\"given\":[", cfg.json());
                    for k in 0..3 {
                        if k > 0 {
                            s.push(',');
                        }
                        list(&mut s, &given[k], |o2, v| {
                            let _ = write!(o2, "{v}");
                        });
                    }
                    s.push(']');
                    macro_rules! go {
                        ($t:ty) => {{
                            let mk = |k: usize| {
                                let gk = PlaneGeom { w: dims[k].0, h: dims[k].1, xdec: if k == 0 { lxd } else { sx }, ydec: if k == 0 { lyd } else { sy }, xpad, ypad };
                                make_plane::<$t>(gk, Some(poison), |x, y| given[k][y * dims[k].0 + x])
                            };
                            match Yuv::<$t>::new(Frame { planes: [mk(0), mk(1), mk(2)] }, cfg.yuv_config()) {
                                Ok(y) => {
                                    let _ = write!(s, ",\"res\":\"ok\",\"wo\":{},\"ho\":{},\"cfgo\":{},\"seen\":[", y.width(), y.height(), crate::frames::cfg_json_of(&y.config()));
                                    for k in 0..3 {
                                        if k > 0 {
                                            s.push(',');
                                        }
                                        let pl = &y.data()[k];
                                        let mut v = Vec::new();
                                        for yy in 0..pl.cfg.height {
                                            for xx in 0..pl.cfg.width {
                                                v.push(u16::cast_from(pl.p(xx, yy)));
                                            }
                                        }
                                        list(&mut s, &v, |o2, x| {
                                            let _ = write!(o2, "{x}");
                                        });
                                    }
                                    let _ = write!(s, "],\"pdims\":[[{},{}],[{},{}],[{},{}]]", y.data()[0].cfg.width, y.data()[0].cfg.height, y.data()[1].cfg.width, y.data()[1].cfg.height, y.data()[2].cfg.width, y.data()[2].cfg.height);
                                }
                                Err(e) => {
                                    let _ = write!(s, ",\"res\":\"{}\"", crate::frames::err_name_yuv(e));
                                }
                            }
                        }};
                    }
                    if st == 8 {
                        go!(u8);
                    } else {
                        go!(u16);
                    }
                    sh.emit(&s);
                    n_ev += 1;
                }
            }
        }
    }
    // float constructors: the whole (len, w, h) cube 0..=40, one event per (kind, len) with a 41x41 outcome grid,
    // and verbatim logs for the accepted ones
    for kind in ["rgb", "lin", "xyb", "hsl"] {
        for len in 0..=40usize {
            // every other pixel carries values a constructor might be tempted to "normalise" (hue 360, -0, NaN, inf, subnormals,
            // out-of-range values): kept verbatim means bit for bit
            const SPECIAL: [f32; 12] = [360.0, -0.0, 0.0, 1.0, f32::NAN, f32::INFINITY, f32::NEG_INFINITY, 359.99997, -360.0, 1.0e-40, f32::MAX, 720.0];
            let data: Vec<[f32; 3]> = (0..len)
                .map(|i| if i % 2 == 1 { [SPECIAL[(i / 2) % 12], SPECIAL[(i / 2 + 5) % 12], SPECIAL[(i / 2 + 9) % 12]] } else { [i as f32 + 0.25, -(i as f32), 1.0 / (i as f32 + 1.0)] })
                .collect();
            let mut s = String::new();
            let _ = write!(s, "\"ev\":\"fctor\",\"kind\":\"{kind}\",\"len\":{len},\"grid\":[");
            let mut acc: Vec<String> = Vec::new();
            for w in 0..=40usize {
                if w > 0 {
                    s.push(',');
                }
                s.push('[');
                for h in 0..=40usize {
                    if h > 0 {
                        s.push(',');
                    }
                    let d = data.clone();
                    let r = catch_unwind(AssertUnwindSafe(|| -> Result<(usize, usize, Vec<[f32; 3]>, i32, i32), ()> {
                        match kind {
                            "rgb" => Rgb::new(d, w, h, tc(13), cp(9)).map(|x| (x.width(), x.height(), x.data().to_vec(), x.transfer() as i32, x.primaries() as i32)).map_err(|_| ()),
                            "lin" => LinearRgb::new(d, w, h).map(|x| (x.width(), x.height(), x.data().to_vec(), -1, -1)).map_err(|_| ()),
                            "xyb" => Xyb::new(d, w, h).map(|x| (x.width(), x.height(), x.data().to_vec(), -1, -1)).map_err(|_| ()),
                            _ => Hsl::new(d, w, h).map(|x| (x.width(), x.height(), x.data().to_vec(), -1, -1)).map_err(|_| ()),
                        }
                    }));
                    match r {
                        Err(_) => s.push('9'),
                        Ok(Err(())) => s.push('5'),
                        Ok(Ok((wo, ho, dout, t, p))) => {
                            s.push('0');
                            let mut a = String::new();
                            let _ = write!(a, "\"ev\":\"fverb\",\"kind\":\"{kind}\",\"len\":{len},\"w\":{w},\"h\":{h},\"wo\":{wo},\"ho\":{ho},\"tco\":{t},\"cpo\":{p},\"given\":");
                            list(&mut a, &data, px_bits);
                            a.push_str(",\"seen\":");
                            list(&mut a, &dout, px_bits);
                            acc.push(a);
                        }
                    }
                }
                s.push(']');
            }
            s.push(']');
            sh.emit(&s);
            n_ev += 1;
            for a in acc {
                sh.emit(&a);
                n_ev += 1;
            }
        }
    }
    // accessors of the float kinds: what data(), data_mut(), into_data() and clone() expose of an accepted image
    // (spec actions MutatePayload / IntoData / Clone of Yuvxyb.tla): ev = "acc"
    for kind in ["rgb", "lin", "xyb", "hsl"] {
        for (w, h) in [(1usize, 1usize), (3, 2), (5, 1), (4, 4)] {
            let data: Vec<[f32; 3]> = (0..w * h).map(|_| [rng.unit() as f32, -(rng.unit() as f32), 2.0 * rng.unit() as f32]).collect();
            let patch = [0.125f32, -7.5, 1e-20];
            let at = (w * h) / 2;
            macro_rules! acc {
                ($mk:expr) => {{
                    let img = $mk;
                    let cl = img.clone();
                    let seen: Vec<[f32; 3]> = img.data().to_vec();
                    let mut m = img.clone();
                    m.data_mut()[at] = patch;
                    let after_mut: Vec<[f32; 3]> = m.data().to_vec();
                    let clone_after: Vec<[f32; 3]> = cl.data().to_vec();
                    let (mw, mh) = (m.width(), m.height());
                    let into: Vec<[f32; 3]> = img.into_data();
                    let mut s = String::new();
                    let _ = write!(s, "\"ev\":\"acc\",\"kind\":\"{kind}\",\"w\":{w},\"h\":{h},\"at\":{},\"mw\":{mw},\"mh\":{mh},\"given\":", at + 1);
                    list(&mut s, &data, px_bits);
                    s.push_str(",\"patch\":");
                    px_bits(&mut s, &patch);
                    for (k, v) in [("seen", &seen), ("after_mut", &after_mut), ("clone_after", &clone_after), ("into", &into)] {
                        let _ = write!(s, ",\"{k}\":");
                        list(&mut s, v, px_bits);
                    }
                    sh.emit(&s);
                    n_ev += 1;
                }};
            }
            match kind {
                "rgb" => acc!(Rgb::new(data.clone(), w, h, tc(13), cp(9)).expect("ctor")),
                "lin" => acc!(LinearRgb::new(data.clone(), w, h).expect("ctor")),
                "xyb" => acc!(Xyb::new(data.clone(), w, h).expect("ctor")),
                _ => acc!(Hsl::new(data.clone(), w, h).expect("ctor")),
            }
        }
    }
    std::panic::set_hook(prev);
    serde_json::json!({"events": n_ev, "calls": n_ev, "distinct": n_ev})
}
