//! Shared helpers: deterministic RNG, exact float -> wire encodings, ndjson shard writer, enum codes.
//!
//! RULE (DESIGN.md 5.6): nothing in this crate compares a result with an expected value or computes a
//! tolerance.  It builds inputs, calls the library, and logs.  Every verdict is a TLC evaluation.

use std::fmt::Write as _;
use std::fs::File;
use std::io::{BufWriter, Write};
use std::path::Path;

use yuvxyb::{ColorPrimaries, FromPrimitive, MatrixCoefficients, TransferCharacteristic};

/// A panic of the code under test is DATA (the event gets res = "panic" and TLC rejects it), never a crash of the harness.
pub fn guard<T>(f: impl FnOnce() -> T) -> Result<T, &'static str> {
    std::panic::catch_unwind(std::panic::AssertUnwindSafe(f)).map_err(|_| "panic")
}
pub fn guard2<T>(f: impl FnOnce() -> Result<T, &'static str>) -> Result<T, &'static str> {
    match std::panic::catch_unwind(std::panic::AssertUnwindSafe(f)) {
        Ok(r) => r,
        Err(_) => Err("panic"),
    }
}
pub fn guard_s<T>(f: impl FnOnce() -> Result<T, String>) -> Result<T, String> {
    match std::panic::catch_unwind(std::panic::AssertUnwindSafe(f)) {
        Ok(r) => r,
        Err(_) => Err("panic".to_string()),
    }
}

// ---------------------------------------------------------------------------------------------
// RNG: splitmix64 (deterministic from VERIF_SEED)
#[derive(Clone)]
pub struct Rng(pub u64);
impl Rng {
    pub fn new(seed: u64, stream: u64) -> Self {
        let mut r = Rng(seed ^ stream.wrapping_mul(0x9E37_79B9_7F4A_7C15));
        r.next();
        r
    }
    pub fn next(&mut self) -> u64 {
        self.0 = self.0.wrapping_add(0x9E37_79B9_7F4A_7C15);
        let mut z = self.0;
        z = (z ^ (z >> 30)).wrapping_mul(0xBF58_476D_1CE4_E5B9);
        z = (z ^ (z >> 27)).wrapping_mul(0x94D0_49BB_1331_11EB);
        z ^ (z >> 31)
    }
    pub fn below(&mut self, n: u64) -> u64 {
        if n == 0 {
            0
        } else {
            self.next() % n
        }
    }
    /// uniform in [0,1)
    pub fn unit(&mut self) -> f64 {
        (self.next() >> 11) as f64 / (1u64 << 53) as f64
    }
    pub fn range(&mut self, lo: f64, hi: f64) -> f64 {
        lo + (hi - lo) * self.unit()
    }
    pub fn f32_in(&mut self, lo: f32, hi: f32) -> f32 {
        self.range(f64::from(lo), f64::from(hi)) as f32
    }
}

// ---------------------------------------------------------------------------------------------
// Exact decimal encoding of floats: value = s * (l1 + l2*1e4 + ... + l6*1e20) * 1e-16, rounded to
// nearest 1e-16 (half up in magnitude).  Non-finite / |v| >= 1e8 are sent as class tags:
// [9,1,..]=NaN  [9,2,..]=+inf  [9,3,..]=-inf  [9,4,..]=finite >= 1e8  [9,5,..]=finite <= -1e8.
fn units_from(mant: u128, exp: i32) -> Option<u128> {
    // mant * 2^exp * 10^16 rounded; None if >= 10^24
    const TEN16: u128 = 10_000_000_000_000_000;
    if mant == 0 {
        return Some(0);
    }
    if exp >= 0 {
        if exp > 40 {
            return None;
        }
        let v = mant.checked_shl(exp as u32)?;
        if v >= 100_000_000 {
            return None;
        }
        Some(v * TEN16)
    } else {
        let sh = (-exp) as u32;
        let num = mant * TEN16; // mant < 2^53 -> < 2^107
        if sh >= 127 {
            return Some(0);
        }
        let q = num >> sh;
        let rem = num & ((1u128 << sh) - 1);
        let half = 1u128 << (sh - 1);
        let q = if rem >= half { q + 1 } else { q };
        if q >= 1_000_000_000_000_000_000_000_000 {
            None
        } else {
            Some(q)
        }
    }
}

fn push_units(out: &mut String, neg: bool, mut u: u128) {
    if u == 0 {
        out.push_str("[0,0,0,0,0,0,0]");
        return;
    }
    out.push_str(if neg { "[-1" } else { "[1" });
    for _ in 0..6 {
        let _ = write!(out, ",{}", u % 10000);
        u /= 10000;
    }
    out.push(']');
}

pub fn fx32(out: &mut String, v: f32) {
    if v.is_nan() {
        out.push_str("[9,1,0,0,0,0,0]");
        return;
    }
    if v.is_infinite() {
        out.push_str(if v > 0.0 { "[9,2,0,0,0,0,0]" } else { "[9,3,0,0,0,0,0]" });
        return;
    }
    let bits = v.to_bits();
    let neg = bits >> 31 != 0;
    let e = ((bits >> 23) & 0xff) as i32;
    let f = u128::from(bits & 0x7f_ffff);
    let (mant, exp) = if e == 0 { (f, -149) } else { (f | 0x80_0000, e - 150) };
    match units_from(mant, exp) {
        Some(u) => push_units(out, neg, u),
        None => out.push_str(if neg { "[9,5,0,0,0,0,0]" } else { "[9,4,0,0,0,0,0]" }),
    }
}

pub fn fx64(out: &mut String, v: f64) {
    if v.is_nan() {
        out.push_str("[9,1,0,0,0,0,0]");
        return;
    }
    if v.is_infinite() {
        out.push_str(if v > 0.0 { "[9,2,0,0,0,0,0]" } else { "[9,3,0,0,0,0,0]" });
        return;
    }
    let bits = v.to_bits();
    let neg = bits >> 63 != 0;
    let e = ((bits >> 52) & 0x7ff) as i32;
    let f = u128::from(bits & 0xf_ffff_ffff_ffff);
    let (mant, exp) = if e == 0 { (f, -1074) } else { (f | (1u128 << 52), e - 1075) };
    match units_from(mant, exp) {
        Some(u) => push_units(out, neg, u),
        None => out.push_str(if neg { "[9,5,0,0,0,0,0]" } else { "[9,4,0,0,0,0,0]" }),
    }
}

/// raw bits as two 16-bit halves [hi, lo] (TLC integers are 32-bit signed)
pub fn bits32(out: &mut String, v: f32) {
    let b = v.to_bits();
    let _ = write!(out, "[{},{}]", b >> 16, b & 0xffff);
}

/// exact (class, sign, m, e): finite non-zero v = sign * m * 2^e with 2^23 <= m < 2^24 for normals
/// (subnormals: m < 2^23, e = -149).  class: 0 zero, 1 normal, 2 subnormal, 3 +inf, 4 -inf, 5 NaN
pub fn me32(out: &mut String, v: f32) {
    let bits = v.to_bits();
    let s = if bits >> 31 != 0 { -1 } else { 1 };
    let e = ((bits >> 23) & 0xff) as i32;
    let f = (bits & 0x7f_ffff) as i32;
    let (class, m, ex) = if e == 255 {
        (if f != 0 { 5 } else if s > 0 { 3 } else { 4 }, 0, 0)
    } else if e == 0 {
        if f == 0 {
            (0, 0, 0)
        } else {
            (2, f, -149)
        }
    } else {
        (1, f | 0x80_0000, e - 150)
    };
    let _ = write!(out, "[{class},{s},{m},{ex}]");
}

pub fn px_fx(out: &mut String, p: &[f32; 3]) {
    out.push('[');
    fx32(out, p[0]);
    out.push(',');
    fx32(out, p[1]);
    out.push(',');
    fx32(out, p[2]);
    out.push(']');
}
pub fn px_bits(out: &mut String, p: &[f32; 3]) {
    out.push('[');
    bits32(out, p[0]);
    out.push(',');
    bits32(out, p[1]);
    out.push(',');
    bits32(out, p[2]);
    out.push(']');
}
pub fn list<T>(out: &mut String, items: &[T], mut f: impl FnMut(&mut String, &T)) {
    out.push('[');
    for (i, it) in items.iter().enumerate() {
        if i > 0 {
            out.push(',');
        }
        f(out, it);
    }
    out.push(']');
}

// ---------------------------------------------------------------------------------------------
// ndjson shard writer: events are dealt round-robin to N files; every event gets "id" and "p".
pub struct Shards {
    files: Vec<BufWriter<File>>,
    next: usize,
    pub events: u64,
    pub bytes: u64,
    prop: String,
    build: String,
    keep_every: u64,
}
impl Shards {
    pub fn create(dir: &Path, prop: &str, n: usize, build: &str) -> std::io::Result<Self> {
        std::fs::create_dir_all(dir)?;
        let mut files = Vec::new();
        for k in 0..n.max(1) {
            files.push(BufWriter::with_capacity(1 << 20, File::create(dir.join(format!("{prop}-{k:02}.ndjson")))?));
        }
        Ok(Self { files, next: 0, events: 0, bytes: 0, prop: prop.to_string(), build: build.to_string(), keep_every: 1 })
    }
    /// thin the trace: keep one event in `k` (events are independent samples; ids stay those of the full trace)
    pub fn set_keep_every(&mut self, k: u64) {
        self.keep_every = k.max(1);
    }
    pub fn set_prop(&mut self, p: &str) {
        self.prop = p.to_string();
    }
    /// `body` is the inside of a JSON object WITHOUT braces, e.g. `"ev":"dec","n":8`
    pub fn emit(&mut self, body: &str) {
        self.events += 1;
        // the conversions of the NEXT event run with the other logging level (no effect unless a logger is installed)
        log::set_max_level(if self.events % 2 == 1 { log::LevelFilter::Trace } else { log::LevelFilter::Off });
        // thinning applies to the many independent sample events; the few summary / large-frame / echo events (each the
        // only witness of a whole code path) are always kept
        let rare = body.starts_with("\"ev\":\"mathtot\"") || body.starts_with("\"ev\":\"c09p\"") || body.starts_with("\"ev\":\"rt_bad\"") || body.contains("\"probe\":1") || body.contains("\"echo\":1");
        if self.keep_every > 1 && self.events % self.keep_every != 1 && !rare {
            return;
        }
        let line = format!("{{\"id\":{},\"p\":\"{}\",\"b\":\"{}\",{}}}\n", self.events, self.prop, self.build, body);
        self.bytes += line.len() as u64;
        let k = self.next;
        self.next = (self.next + 1) % self.files.len();
        self.files[k].write_all(line.as_bytes()).expect("write shard");
    }
    pub fn finish(mut self) -> (u64, u64) {
        for f in &mut self.files {
            f.flush().expect("flush shard");
        }
        (self.events, self.bytes)
    }
}

// ---------------------------------------------------------------------------------------------
// H.273 code points <-> av-data enums
pub const MC_ALL: [u8; 15] = [0, 1, 2, 3, 4, 5, 6, 7, 8, 9, 10, 11, 12, 13, 14];
pub const CP_ALL: [u8; 14] = [0, 1, 2, 3, 4, 5, 6, 7, 8, 9, 10, 11, 12, 22];
pub const TC_ALL: [u8; 19] = [0, 1, 2, 3, 4, 5, 6, 7, 8, 9, 10, 11, 12, 13, 14, 15, 16, 17, 18];
/// every value a LABEL can take without being resolved (all but Unspecified), supported by the curve stages or not:
/// stages that do not use a label must ignore all of them
pub const TC_LBL: [u8; 18] = [1, 4, 5, 6, 7, 8, 9, 10, 11, 13, 14, 15, 16, 18, 0, 3, 12, 17];
pub const CP_LBL: [u8; 13] = [1, 4, 5, 6, 7, 8, 9, 10, 11, 12, 22, 0, 3];
pub const MC_STD: [u8; 7] = [1, 4, 5, 6, 7, 8, 9];
pub const TC_SUP: [u8; 14] = [1, 4, 5, 6, 7, 8, 9, 10, 11, 13, 14, 15, 16, 18];
pub const CP_SUP: [u8; 11] = [1, 4, 5, 6, 7, 8, 9, 10, 11, 12, 22];

pub fn mc(code: u8) -> MatrixCoefficients {
    MatrixCoefficients::from_u8(code).expect("matrix code")
}
pub fn cp(code: u8) -> ColorPrimaries {
    ColorPrimaries::from_u8(code).expect("primaries code")
}
pub fn tc(code: u8) -> TransferCharacteristic {
    TransferCharacteristic::from_u8(code).expect("transfer code")
}
pub fn mc_code(m: MatrixCoefficients) -> u8 {
    m as u8
}
pub fn cp_code(p: ColorPrimaries) -> u8 {
    p as u8
}
pub fn tc_code(t: TransferCharacteristic) -> u8 {
    t as u8
}

/// image shapes used to cut pixel lists into images: pixel counts 1,2,3,5,7,9,13,25,37,64,85,99,128
/// (deliberately not all multiples of 2/4/8 so that tail handling of any chunked loop is exercised)
pub const SHAPES: [(usize, usize); 13] =
    [(1, 1), (2, 1), (3, 1), (1, 5), (7, 1), (3, 3), (13, 1), (5, 5), (37, 1), (8, 8), (17, 5), (33, 3), (64, 2)];

/// cut `n` items into consecutive (start, w, h) images following SHAPES (cycled from `phase`); the last
/// image is shrunk to a single row if fewer items remain
pub fn cut_images(n: usize, phase: usize) -> Vec<(usize, usize, usize)> {
    let mut v = Vec::new();
    let mut at = 0;
    let mut k = phase;
    while at < n {
        let (w, h) = SHAPES[k % SHAPES.len()];
        k += 1;
        let left = n - at;
        if w * h <= left {
            v.push((at, w, h));
            at += w * h;
        } else {
            v.push((at, left, 1));
            at = n;
        }
    }
    v
}

/// pixel positions logged from a LARGE image (the conversion runs on all of it; only these are handed to TLC):
/// both ends, the neighbourhoods of every power-of-two chunk boundary, row ends, and seeded random positions
pub fn probe_indices(n: usize, w: usize, rng: &mut Rng) -> Vec<usize> {
    let mut s = std::collections::BTreeSet::new();
    for k in 0..4.min(n) {
        s.insert(k);
        s.insert(n - 1 - k);
    }
    let mut b = 4usize;
    while b < n {
        for m in [b, b * 3] {
            for d in [-1i64, 0, 1] {
                let i = m as i64 + d;
                if i >= 0 && (i as usize) < n {
                    s.insert(i as usize);
                }
            }
        }
        b *= 2;
    }
    // boundaries of an even split of the pixels over 2..=16 workers
    for workers in [2usize, 3, 4, 6, 8, 12, 16] {
        for k in 1..workers {
            for d in [-1i64, 0] {
                let i = (k * (n / workers)) as i64 + d;
                if i >= 0 && (i as usize) < n {
                    s.insert(i as usize);
                }
            }
        }
    }
    for r in [1usize, 2, w / 2] {
        for d in [-1i64, 0] {
            let i = (r * w) as i64 + d;
            if i >= 0 && (i as usize) < n {
                s.insert(i as usize);
            }
        }
    }
    for _ in 0..60 {
        s.insert(rng.below(n as u64) as usize);
    }
    s.into_iter().collect()
}
/// sizes of the LARGE probe images: above typical "parallelise / vectorise from here on" thresholds (>= 512*512 pixels),
/// with pixel counts that are not multiples of 2, 4, 8 or 16
/// a do-nothing `log` logger: the library logs through the `log` facade, and whether the host process has installed a
/// logger (and at which level) must not change what a conversion returns.  Installed in every generator process; the
/// level flips between Off and Trace from one emitted event to the next (`Shards::emit`), so every family runs half of its
/// conversions on a host with a logger that wants everything and half on a host without one.
pub struct NullLogger;
impl log::Log for NullLogger {
    fn enabled(&self, _: &log::Metadata) -> bool {
        true
    }
    fn log(&self, r: &log::Record) {
        // format the arguments as a real logger would
        let _ = format!("{}", r.args());
    }
    fn flush(&self) {}
}
pub static NULL_LOGGER: NullLogger = NullLogger;
pub fn install_logger() {
    let _ = log::set_logger(&NULL_LOGGER);
    log::set_max_level(log::LevelFilter::Off);
}

/// positions where two results differ bit for bit (first and last few, the rest evenly spread), at most `cap`
pub fn diff_positions(a: &[[f32; 3]], b: &[[f32; 3]], cap: usize) -> Vec<usize> {
    let all: Vec<usize> = (0..a.len().min(b.len())).filter(|&i| (0..3).any(|k| a[i][k].to_bits() != b[i][k].to_bits())).collect();
    if all.len() <= cap {
        return all;
    }
    let mut v: Vec<usize> = all[..8].to_vec();
    v.extend_from_slice(&all[all.len() - 8..]);
    let step = all.len() / (cap - 16);
    v.extend(all.iter().skip(8).step_by(step.max(1)).take(cap - 16));
    v.sort_unstable();
    v.dedup();
    v
}
/// An untrusted SCREEN for position-dependent behaviour in large frames: the whole-frame result is compared with the
/// result of converting the same pixels in small independent pieces; positions where the two differ are ADDED to the
/// probe set.  Nothing is judged here - TLC judges the whole-frame value at every probed position against the
/// standard, the screen only makes sure that a pixel the frame's size / neighbours / position got wrong is among them.
pub fn screen_idx(idx: &mut Vec<usize>, whole: &Result<Vec<[f32; 3]>, &'static str>, px: &[[f32; 3]], f: &dyn Fn(&[[f32; 3]], usize, usize) -> Result<Vec<[f32; 3]>, &'static str>) {
    let Ok(out) = whole else { return };
    if out.len() != px.len() {
        return;
    }
    let mut pieces: Vec<[f32; 3]> = Vec::with_capacity(px.len());
    for c in px.chunks(509) {
        match f(c, c.len(), 1) {
            Ok(v) if v.len() == c.len() => pieces.extend(v),
            _ => return,
        }
    }
    idx.extend(diff_positions(out, &pieces, 48));
    idx.sort_unstable();
    idx.dedup();
}

/// frames of more than 2^20 pixels in the shapes that size-triggered code paths (tables, threads, vector loops) meet in
/// practice: full HD, one single row, one single column, a 2^21+ rectangle with odd sides, UHD (8.3 Mpx)
pub const NHUGE: usize = 5;
pub fn huge(k: usize) -> (usize, usize) {
    [(1920, 1080), (1_048_579, 1), (1, 1_048_581), (2049, 1025), (3840, 2160)][k % NHUGE]
}
pub fn big(k: usize) -> (usize, usize) {
    [(521, 509), (311, 227), (513, 513), (1031, 257)][k % 4]
}
