//! Building YUV frames through the public frame types only (Plane::new + data_origin_mut).

use yuvxyb::{CastFromPrimitive, Frame, Pixel, Plane, Yuv, YuvConfig, YuvError};

use crate::util::{cp, mc, tc};

#[derive(Clone, Copy, Debug, PartialEq, Eq, Hash, PartialOrd, Ord)]
pub struct Cfg {
    pub mc: u8,
    pub tc: u8,
    pub cp: u8,
    pub full: bool,
    pub n: u8,
    pub ssx: u8,
    pub ssy: u8,
}
impl Cfg {
    pub fn yuv_config(&self) -> YuvConfig {
        YuvConfig {
            bit_depth: self.n,
            subsampling_x: self.ssx,
            subsampling_y: self.ssy,
            full_range: self.full,
            matrix_coefficients: mc(self.mc),
            transfer_characteristics: tc(self.tc),
            color_primaries: cp(self.cp),
        }
    }
    pub fn json(&self) -> String {
        format!(
            "{{\"mc\":{},\"tc\":{},\"cp\":{},\"full\":{},\"n\":{},\"ssx\":{},\"ssy\":{}}}",
            self.mc, self.tc, self.cp, u8::from(self.full), self.n, self.ssx, self.ssy
        )
    }
}
pub fn cfg_json_of(c: &YuvConfig) -> String {
    format!(
        "{{\"mc\":{},\"tc\":{},\"cp\":{},\"full\":{},\"n\":{},\"ssx\":{},\"ssy\":{}}}",
        c.matrix_coefficients as u8,
        c.transfer_characteristics as u8,
        c.color_primaries as u8,
        u8::from(c.full_range),
        c.bit_depth,
        c.subsampling_x,
        c.subsampling_y
    )
}

/// geometry of one plane as the caller builds it
#[derive(Clone, Copy, Debug)]
pub struct PlaneGeom {
    pub w: usize,
    pub h: usize,
    pub xdec: usize,
    pub ydec: usize,
    pub xpad: usize,
    pub ypad: usize,
}

/// Build a plane; `sample(x,y)` gives visible samples, `poison` fills everything else (padding).
pub fn make_plane<T: Pixel>(g: PlaneGeom, poison: Option<u16>, mut sample: impl FnMut(usize, usize) -> u16) -> Plane<T> {
    let mut p: Plane<T> = Plane::new(g.w, g.h, g.xdec, g.ydec, g.xpad, g.ypad);
    if let Some(v) = poison {
        for s in p.data.iter_mut() {
            *s = T::cast_from(v);
        }
    }
    let stride = p.cfg.stride;
    let o = p.data_origin_mut();
    for y in 0..g.h {
        for x in 0..g.w {
            o[y * stride + x] = T::cast_from(sample(x, y));
        }
    }
    p
}

/// 4:4:4-or-subsampled frame whose chroma planes have the size the config implies; pixel i = (y*w+x)
/// takes its luma from `px[i][0]` and each chroma sample from the top-left pixel of its block.
pub fn frame_from_pixels<T: Pixel>(px: &[[u16; 3]], w: usize, h: usize, ssx: u8, ssy: u8, pads: [(usize, usize); 3]) -> Frame<T> {
    let cw = w >> ssx;
    let ch = h >> ssy;
    let y = make_plane::<T>(PlaneGeom { w, h, xdec: 0, ydec: 0, xpad: pads[0].0, ypad: pads[0].1 }, None, |x, yy| px[yy * w + x][0]);
    let u = make_plane::<T>(
        PlaneGeom { w: cw, h: ch, xdec: ssx as usize, ydec: ssy as usize, xpad: pads[1].0, ypad: pads[1].1 },
        None,
        |x, yy| px[(yy << ssy) * w + (x << ssx)][1],
    );
    let v = make_plane::<T>(
        PlaneGeom { w: cw, h: ch, xdec: ssx as usize, ydec: ssy as usize, xpad: pads[2].0, ypad: pads[2].1 },
        None,
        |x, yy| px[(yy << ssy) * w + (x << ssx)][2],
    );
    Frame { planes: [y, u, v] }
}

/// like frame_from_pixels, but the luma plane is built with Plane::from_slice (tightly packed: stride == width, no
/// padding, no alignment) while the chroma planes come from Plane::new with the given paddings
pub fn frame_packed_luma<T: Pixel>(px: &[[u16; 3]], w: usize, h: usize, ssx: u8, ssy: u8, pads: [(usize, usize); 3]) -> Frame<T> {
    let mut f = frame_from_pixels::<T>(px, w, h, ssx, ssy, pads);
    let luma: Vec<T> = px.iter().map(|p| T::cast_from(p[0])).collect();
    f.planes[0] = Plane::from_slice(&luma, w);
    f
}

pub fn yuv444<T: Pixel>(px: &[[u16; 3]], w: usize, h: usize, cfg: &Cfg) -> Result<Yuv<T>, YuvError> {
    Yuv::new(frame_from_pixels::<T>(px, w, h, cfg.ssx, cfg.ssy, [(0, 0); 3]), cfg.yuv_config())
}
/// same, with per-plane paddings (so that the three planes get different strides / origins)
pub fn yuv444_padded<T: Pixel>(px: &[[u16; 3]], w: usize, h: usize, cfg: &Cfg, pads: [(usize, usize); 3]) -> Result<Yuv<T>, YuvError> {
    Yuv::new(frame_from_pixels::<T>(px, w, h, cfg.ssx, cfg.ssy, pads), cfg.yuv_config())
}

/// read back every visible sample of plane `p` row-major
pub fn plane_samples<T: Pixel>(yuv: &Yuv<T>, p: usize) -> Vec<u16> {
    let pl = &yuv.data()[p];
    let mut v = Vec::with_capacity(pl.cfg.width * pl.cfg.height);
    for y in 0..pl.cfg.height {
        for x in 0..pl.cfg.width {
            v.push(u16::cast_from(pl.p(x, y)));
        }
    }
    v
}

pub fn err_name_yuv(e: YuvError) -> &'static str {
    match e {
        YuvError::SubsamplingMismatch => "SubsamplingMismatch",
        YuvError::InvalidLumaWidth => "InvalidLumaWidth",
        YuvError::InvalidLumaHeight => "InvalidLumaHeight",
        YuvError::InvalidData => "InvalidData",
        // a variant added after this harness was written: reported by name-less tag, judged by TLC like any other outcome
        #[allow(unreachable_patterns)]
        _ => "OtherYuvError",
    }
}
pub fn err_name_conv(e: yuvxyb::ConversionError) -> &'static str {
    use yuvxyb::ConversionError as E;
    match e {
        E::UnsupportedMatrixCoefficients => "UnsupportedMatrixCoefficients",
        E::UnspecifiedMatrixCoefficients => "UnspecifiedMatrixCoefficients",
        E::UnsupportedColorPrimaries => "UnsupportedColorPrimaries",
        E::UnspecifiedColorPrimaries => "UnspecifiedColorPrimaries",
        E::UnsupportedTransferCharacteristic => "UnsupportedTransferCharacteristic",
        E::UnspecifiedTransferCharacteristic => "UnspecifiedTransferCharacteristic",
        #[allow(unreachable_patterns)]
        _ => "OtherConversionError",
    }
}
