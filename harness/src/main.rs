//! yvx-conform: drives the real yuvxyb API and logs what it did as ndjson for TLC to judge.
//!
//!   yvx-conform gen <PROP> --out <dir> [--shards N] [--tier quick|thorough] [--seed S]
//!   yvx-conform replay <cases.ndjson> --out <file>
//!   yvx-conform buildinfo
/// HOST dimension (cargo feature `misalign`): the allocator contract only promises the alignment that was asked for.  With
/// this allocator every allocation whose alignment requirement is <= 4 bytes (`Vec<[f32; 3]>`, `Vec<f32>` ...) starts at an
/// address that is 4 mod 16, as it may on 32-bit targets, wasm32 or under a bump allocator.  What a conversion returns
/// must not depend on it.
#[cfg(feature = "misalign")]
mod misalign {
    use std::alloc::{GlobalAlloc, Layout, System};
    pub struct Misalign;
    // SAFETY: every block is obtained from / returned to `System` with one and the same enlarged 16-aligned layout; the
    // pointer handed out is inside that block, satisfies the (<= 4 byte) alignment asked for and has `size` bytes after it
    unsafe impl GlobalAlloc for Misalign {
        unsafe fn alloc(&self, l: Layout) -> *mut u8 {
            if l.align() <= 4 && l.size() > 0 {
                let p = System.alloc(Layout::from_size_align_unchecked(l.size() + 16, 16));
                if p.is_null() {
                    p
                } else {
                    p.add(4)
                }
            } else {
                System.alloc(l)
            }
        }
        unsafe fn dealloc(&self, p: *mut u8, l: Layout) {
            if l.align() <= 4 && l.size() > 0 {
                System.dealloc(p.sub(4), Layout::from_size_align_unchecked(l.size() + 16, 16));
            } else {
                System.dealloc(p, l);
            }
        }
    }
}
#[cfg(feature = "misalign")]
#[global_allocator]
static GLOBAL: misalign::Misalign = misalign::Misalign;

mod frames;
mod gen_c09;
mod gen_color;
mod gen_geom;
mod gen_loops;
mod gen_math;
mod gen_meta;
mod gen_pointwise;
mod gen_safety;
mod replay;
mod gen_tf;
mod gen_yuv;
mod srcs;
mod util;

use std::path::PathBuf;

pub struct Opts {
    pub mini: bool,
    pub keep_every: u64,
    pub plan: String,
    pub as_prop: String,
    pub out: PathBuf,
    pub shards: usize,
    pub thorough: bool,
    pub seed: u64,
}

fn build_tag() -> String {
    format!(
        "{}-{}-{}",
        if cfg!(feature = "fast") { "fast" } else { "exact" },
        if cfg!(target_feature = "fma") { "fma" } else { "nofma" },
        if cfg!(feature = "allfeat") {
            "allfeat"
        } else if cfg!(feature = "misalign") {
            "misalign"
        } else if cfg!(debug_assertions) {
            "checked"
        } else {
            "release"
        }
    )
}

fn main() {
    let args: Vec<String> = std::env::args().collect();
    if args.len() < 2 {
        eprintln!("usage: yvx-conform gen <PROP> --out <dir> [--shards N] [--tier quick|thorough] [--seed S]");
        std::process::exit(2);
    }
    let mut o = Opts { mini: false, keep_every: 1, plan: String::new(), as_prop: String::new(), out: PathBuf::from("."), shards: 1, thorough: false, seed: 1 };
    let mut pos: Vec<String> = Vec::new();
    let mut i = 2;
    while i < args.len() {
        match args[i].as_str() {
            "--out" => {
                o.out = PathBuf::from(&args[i + 1]);
                i += 1;
            }
            "--shards" => {
                o.shards = args[i + 1].parse().expect("shards");
                i += 1;
            }
            "--tier" => {
                o.thorough = args[i + 1] == "thorough";
                o.mini = args[i + 1] == "mini";
                i += 1;
            }
            "--keep-every" => {
                o.keep_every = args[i + 1].parse().expect("keep-every");
                i += 1;
            }
            "--as" => {
                o.as_prop = args[i + 1].clone();
                i += 1;
            }
            "--plan" => {
                o.plan = args[i + 1].clone();
                i += 1;
            }
            "--seed" => {
                o.seed = args[i + 1].parse().expect("seed");
                i += 1;
            }
            s => pos.push(s.to_string()),
        }
        i += 1;
    }
    match args[1].as_str() {
        "buildinfo" => println!("{}", build_tag()),
        "gen" => {
            // panics of the code under test are caught per call and logged as data; keep stderr quiet
            std::panic::set_hook(Box::new(|_| {}));
            util::install_logger();
            // in the checked profile std's unsafe-precondition checks ABORT the process; with the hooks armed the same fault is
            // reported one step earlier as an (unwinding, hence catchable) panic and becomes `res = "panic"` in the event
            if cfg!(debug_assertions) {
                yuvxyb_math::verif_hooks::enable(yuvxyb_math::verif_hooks::Mode::Summary);
            }
            let prop = pos.first().expect("property id").clone();
            let mut sh = util::Shards::create(&o.out, &prop, o.shards, &build_tag()).expect("create shards");
            if !o.as_prop.is_empty() {
                sh.set_prop(&o.as_prop);
            }
            sh.set_keep_every(o.keep_every);
            let stats = match prop.as_str() {
                "C01" => gen_yuv::gen_c01(&mut sh, &o),
                "C02" => gen_yuv::gen_c02(&mut sh, &o),
                "C08" => gen_yuv::gen_c08(&mut sh, &o),
                "C03" => gen_tf::gen_c03(&mut sh, &o),
                "C10" => gen_tf::gen_c10(&mut sh, &o),
                "C14" => gen_meta::gen_c14(&mut sh, &o),
                "C09" => gen_c09::gen_c09(&mut sh, &o, false),
                "C09I" => gen_c09::gen_c09(&mut sh, &o, true),
                "LOOPS" => gen_loops::gen_loops(&mut sh, &o),
                "C11" => gen_pointwise::gen_c11(&mut sh, &o),
                "COMP06" => gen_pointwise::gen_comp06(&mut sh, &o),
                "C13" => gen_safety::gen_c13(&mut sh, &o, None),
                "GEOM" => gen_geom::gen_geom(&mut sh, &o, &o.plan),
                "C12DATA" => gen_geom::gen_c12_data(&mut sh, &o),
                "C18" => gen_math::gen_c18(&mut sh, &o),
                "C19" => gen_math::gen_c19(&mut sh, &o),
                "C04" => gen_color::gen_c04(&mut sh, &o),
                "C05" => gen_color::gen_c05(&mut sh, &o),
                "C06" => gen_color::gen_c06(&mut sh, &o),
                "C17" => gen_color::gen_c17(&mut sh, &o),
                "C16" => {
                    let a = gen_yuv::gen_c16_yuv(&mut sh, &o);
                    let b = gen_tf::gen_c16_tf(&mut sh, &o);
                    let c = gen_color::gen_c16_color(&mut sh, &o);
                    serde_json::json!({"grey_codes": a, "curve_anchor_samples": b, "grey_pixels_xyb_hsl_primaries": c, "samples": a + b + c})
                }
                _ => {
                    eprintln!("unknown property {prop}");
                    std::process::exit(2);
                }
            };
            let (events, bytes) = sh.finish();
            println!("{}", serde_json::json!({"prop": prop, "build": build_tag(), "events": events, "bytes": bytes, "stats": stats}));
        }
        "concworker" => {
            let what = pos.first().expect("variant").clone();
            match what.parse::<u64>() {
                Ok(variant) => gen_tf::conc_worker(variant, &o),
                Err(_) if what == "dec" => gen_yuv::conc_worker(&o),
                Err(_) if what == "enc" => gen_yuv::conc_worker_enc(&o),
                Err(_) => gen_color::conc_worker(&what, &o),
            }
        }
        "c13worker" => {
            let batch = pos.first().expect("batch").clone();
            gen_safety::worker_main(&batch, &o);
        }
        "replay" => {
            // replay <cases.ndjson> <PROP> --out <dir>
            util::install_logger();
            let cases = pos.first().expect("cases file").clone();
            let prop = pos.get(1).expect("property id").clone();
            let mut sh = util::Shards::create(&o.out, &format!("{prop}-replay"), o.shards, &build_tag()).expect("create shards");
            sh.set_prop(&prop);
            let stats = replay::run(&cases, &mut sh, o.seed);
            let (events, bytes) = sh.finish();
            println!("{}", serde_json::json!({"prop": prop, "build": build_tag(), "events": events, "bytes": bytes, "stats": stats}));
        }
        _ => {
            eprintln!("unknown command");
            std::process::exit(2);
        }
    }
}
