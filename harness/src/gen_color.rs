//! Traces for XYB (C04, C05), primaries (C06), HSL (C17) and their grey-axis clauses (C16).

use std::fmt::Write as _;

use yuvxyb::{Hsl, LinearRgb, Rgb, Xyb};

use crate::util::{cp, cut_images, list, px_bits, px_fx, tc, Rng, Shards, CP_SUP};
use crate::Opts;

fn lattice(n: usize, lo: f32, hi: f32) -> Vec<[f32; 3]> {
    let f = |t: usize| lo + (hi - lo) * (t as f32) / ((n - 1) as f32);
    let mut v = Vec::with_capacity(n * n * n);
    for i in 0..n {
        for j in 0..n {
            for k in 0..n {
                v.push([f(i), f(j), f(k)]);
            }
        }
    }
    v
}

fn xyb_of(px: &[[f32; 3]], w: usize, h: usize) -> Result<Vec<[f32; 3]>, &'static str> {
    crate::util::guard2(|| xyb_of_inner(px, w, h))
}
fn xyb_of_inner(px: &[[f32; 3]], w: usize, h: usize) -> Result<Vec<[f32; 3]>, &'static str> {
    let lin = crate::srcs::lin(px, w, h)?;
    let x = Xyb::from(lin);
    if x.width() != w || x.height() != h || x.data().len() != px.len() {
        return Err("shape");
    }
    Ok(x.data().to_vec())
}
fn lin_of_xyb(px: &[[f32; 3]], w: usize, h: usize) -> Result<Vec<[f32; 3]>, &'static str> {
    crate::util::guard2(|| lin_of_xyb_inner(px, w, h))
}
fn lin_of_xyb_inner(px: &[[f32; 3]], w: usize, h: usize) -> Result<Vec<[f32; 3]>, &'static str> {
    let x = crate::srcs::xyb(px, w, h)?;
    let l = LinearRgb::from(x);
    if l.width() != w || l.height() != h || l.data().len() != px.len() {
        return Err("shape");
    }
    Ok(l.data().to_vec())
}

fn emit_io(sh: &mut Shards, ev: &str, extra: &str, w: usize, h: usize, inp: &[[f32; 3]], outs: &[(&str, Result<Vec<[f32; 3]>, &'static str>)], bits: bool) {
    sh.emit(&io_body(ev, extra, w, h, inp, outs, bits));
}
fn io_body(ev: &str, extra: &str, w: usize, h: usize, inp: &[[f32; 3]], outs: &[(&str, Result<Vec<[f32; 3]>, &'static str>)], bits: bool) -> String {
    let mut s = String::new();
    let _ = write!(s, "\"ev\":\"{ev}\",{extra}\"w\":{w},\"h\":{h},\"in\":");
    list(&mut s, inp, px_fx);
    if bits {
        s.push_str(",\"ib\":");
        list(&mut s, inp, px_bits);
    }
    let mut res = "ok";
    for (name, r) in outs {
        match r {
            Ok(v) => {
                let _ = write!(s, ",\"{name}\":");
                list(&mut s, v, px_fx);
                if bits {
                    let _ = write!(s, ",\"{name}b\":");
                    list(&mut s, v, px_bits);
                }
            }
            Err(e) => res = e,
        }
    }
    let _ = write!(s, ",\"res\":\"{res}\"");
    s
}

/// SCHEDULES (see gen_tf::conc_worker): 8 threads run one family's conversion at the same moment in a fresh process, each
/// on its own 40,913-pixel image (probed); printed as that family's ordinary events with a "conc" tag.
pub fn conc_worker(kind: &str, o: &Opts) {
    use std::sync::{Arc, Barrier};
    let nthreads = 8usize;
    let barrier = Arc::new(Barrier::new(nthreads));
    let (w, h) = (251usize, 163usize);
    let n = w * h;
    let kind = kind.to_string();
    let seed = o.seed;
    let handles: Vec<_> = (0..nthreads)
        .map(|j| {
            let (b, kind) = (barrier.clone(), kind.clone());
            std::thread::spawn(move || {
                let mut rng = Rng::new(seed, 0x0c0c_0000 + j as u64);
                let (lo, hi) = match kind.as_str() {
                    "xyb" => (0.0f32, 4.0f32),
                    "prim" => (-0.5, 2.0),
                    _ => (0.0, 1.0),
                };
                let px: Vec<[f32; 3]> = (0..n).map(|i| if i % 11 == 0 { let g = rng.f32_in(lo.max(0.0), hi.min(1.0)); [g, g, g] } else { [rng.f32_in(lo, hi), rng.f32_in(lo, hi), rng.f32_in(lo, hi)] }).collect();
                let mut idx: Vec<usize> = (0..6).chain(n - 6..n).collect();
                for _ in 0..16 {
                    idx.push(rng.below(n as u64) as usize);
                }
                idx.sort_unstable();
                idx.dedup();
                let sel = |v: &Vec<[f32; 3]>| -> Vec<[f32; 3]> { idx.iter().map(|&i| v[i]).collect() };
                let inp: Vec<[f32; 3]> = idx.iter().map(|&i| px[i]).collect();
                let cps = [9u8, 4, 10, 12, 22, 5, 6, 7];
                let mut out = Vec::new();
                b.wait();
                for round in 0..2 {
                    let extra = format!("\"probe\":1,\"conc\":[{j},{round}],");
                    let body = match kind.as_str() {
                        "xyb" => io_body("xyb", &extra, w, h, &inp, &[("out", xyb_of(&px, w, h).map(|v| sel(&v)))], false),
                        "xybrt" => {
                            let mid = xyb_of(&px, w, h);
                            let back = mid.clone().and_then(|m| lin_of_xyb(&m, w, h));
                            io_body("xybrt", &extra, w, h, &inp, &[("mid", mid.map(|v| sel(&v))), ("back", back.map(|v| sel(&v)))], false)
                        }
                        "prim" => {
                            let c = cps[(j + round) % 8];
                            let a = if j % 2 == 0 { prim_to709(c, &px, w, h) } else { prim_from709(c, &px, w, h) };
                            let back = a.clone().and_then(|m| if j % 2 == 0 { prim_from709(c, &m, w, h) } else { prim_to709(c, &m, w, h) });
                            io_body("prim", &format!("{extra}\"cp\":{c},\"dir\":\"{}\",", if j % 2 == 0 { "to709" } else { "from709" }), w, h, &inp, &[("out", a.map(|v| sel(&v))), ("back", back.map(|v| sel(&v)))], true)
                        }
                        _ => {
                            let mid = hsl_of(&px, w, h);
                            let back = mid.clone().and_then(|m| lin_of_hsl(&m, w, h));
                            io_body("hsl", &extra, w, h, &inp, &[("out", mid.map(|v| sel(&v))), ("back", back.map(|v| sel(&v)))], false)
                        }
                    };
                    out.push(body);
                }
                out
            })
        })
        .collect();
    let stdout = std::io::stdout();
    let mut lock = stdout.lock();
    use std::io::Write as _;
    for hd in handles {
        if let Ok(lines) = hd.join() {
            for s in lines {
                let _ = writeln!(lock, "{s}");
            }
        } else {
            let _ = writeln!(lock, "\"ev\":\"{kind}\",\"probe\":1,\"conc\":[-1,0],\"w\":{w},\"h\":{h},\"in\":[],\"res\":\"panic\"");
        }
    }
}
/// run the concurrent variant of one family in a fresh child process and forward its events
fn conc_events(sh: &mut Shards, o: &Opts, kind: &str) -> u64 {
    if o.mini {
        return 0;
    }
    let exe = std::env::current_exe().expect("exe");
    let mut n = 0;
    match std::process::Command::new(&exe).args(["concworker", kind, "--seed", &o.seed.to_string()]).stderr(std::process::Stdio::null()).output() {
        Ok(o2) if o2.status.success() => {
            for line in String::from_utf8_lossy(&o2.stdout).lines() {
                if line.starts_with("\"ev\"") {
                    sh.emit(line);
                    n += 1;
                }
            }
        }
        Ok(o2) => {
            sh.emit(&format!("\"ev\":\"{kind}\",\"probe\":1,\"conc\":[-1,0],\"w\":1,\"h\":1,\"in\":[],\"res\":\"abort:{}\"", o2.status.to_string().replace('"', "'")));
            n += 1;
        }
        Err(_) => {}
    }
    n
}

/// large-image variant of emit_io: the conversion ran on the whole image, only the probed positions are logged
fn emit_io_probe(sh: &mut Shards, ev: &str, extra: &str, w: usize, h: usize, inp: &[[f32; 3]], outs: &[(&str, Result<Vec<[f32; 3]>, &'static str>)], idx: &[usize], bits: bool) {
    let sel = |v: &Vec<[f32; 3]>| -> Vec<[f32; 3]> { idx.iter().map(|&i| v[i]).collect() };
    let inp_sel: Vec<[f32; 3]> = idx.iter().map(|&i| inp[i]).collect();
    let outs_sel: Vec<(&str, Result<Vec<[f32; 3]>, &'static str>)> = outs.iter().map(|(n, r)| (*n, r.as_ref().map(sel).map_err(|e| *e))).collect();
    emit_io(sh, ev, &format!("\"probe\":1,{extra}"), w, h, &inp_sel, &outs_sel, bits);
}
fn big_unit(rng: &mut Rng, lo: f32, hi: f32) -> (usize, usize, Vec<[f32; 3]>, Vec<usize>) {
    let (w, h) = crate::util::big(rng.below(4) as usize & 2);
    big_unit_wh(rng, lo, hi, w, h)
}
/// the huge shapes a family converts in this run: all four (full HD, single row, single column, 2049x1025), one rotating
/// with the seed in the thinned tier C20 uses
fn huge_shapes(o: &Opts, fam: usize) -> Vec<(usize, usize)> {
    if o.mini {
        vec![crate::util::huge(o.seed as usize + fam)]
    } else {
        (0..crate::util::NHUGE).map(crate::util::huge).collect()
    }
}
fn big_unit_wh(rng: &mut Rng, lo: f32, hi: f32, w: usize, h: usize) -> (usize, usize, Vec<[f32; 3]>, Vec<usize>) {
    let n = w * h;
    // interesting pixels at both ends of the frame: corners, greys, near-black ladders, single channels
    let mut head: Vec<[f32; 3]> = Vec::new();
    for a in [lo, 0.0, 1.0, hi] {
        for b in [lo, 0.0, 1.0, hi] {
            head.push([a, b, 0.5 * (a + b)]);
            head.push([b, a, a]);
        }
    }
    for e in 0..24 {
        let t = 2f32.powi(-26 + e);
        head.push([t, t, t]);
        head.push([t, 0.0, 0.0]);
        head.push([0.0, t, 2.0 * t]);
        head.push([1.0 - t, 1.0, 1.0 - t]);
    }
    let mut px: Vec<[f32; 3]> = Vec::with_capacity(n);
    px.extend(head.iter().copied());
    while px.len() < n - head.len() {
        px.push([rng.f32_in(lo, hi), rng.f32_in(lo, hi), rng.f32_in(lo, hi)]);
    }
    px.extend(head.iter().rev().copied());
    px.truncate(n);
    // the very last (and first) pixels are where dropped remainders live: strongly coloured, distinct, never fixed points
    let ends = [[0.9f32, 0.1, 0.3], [0.15, 0.8, 0.35], [0.3, 0.2, 0.95], [0.7, 0.6, 0.05], [0.05, 0.45, 0.6], [0.55, 0.95, 0.2], [0.4, 0.1, 0.1], [0.85, 0.35, 0.75]];
    for (k, e) in ends.iter().enumerate() {
        let v = [lo + (hi - lo) * e[0].min(1.0) * 0.6 + 0.2 * e[1], lo.max(0.0) + e[1] * hi.min(1.0), lo.max(0.0) + e[2] * hi.min(1.0)];
        px[n - 1 - k] = v;
        px[k] = [v[2], v[0], v[1]];
    }
    let mut idx: std::collections::BTreeSet<usize> = crate::util::probe_indices(n, w, rng).into_iter().collect();
    for k in 0..16.min(n) {
        idx.insert(k);
        idx.insert(n - 1 - k);
    }
    for i in (0..head.len()).step_by(2) {
        idx.insert(i);
        idx.insert(n - 1 - i);
    }
    (w, h, px, idx.into_iter().collect())
}

/// "echo" images: each pixel p is followed by the library's own result for p and by repeats - [p, f(p), p, p, f(p), f(p)] -
/// (run-length / last-value shortcuts, state carried from one pixel to the next)
fn echo_image(src: &[[f32; 3]], f: impl Fn(&[[f32; 3]]) -> Result<Vec<[f32; 3]>, &'static str>) -> Vec<[f32; 3]> {
    let mut v = Vec::new();
    for p in src {
        if let Ok(q) = f(&[*p]) {
            if q.len() == 1 && q[0].iter().all(|x| x.is_finite()) {
                v.extend([*p, q[0], *p, *p, q[0], q[0]]);
            }
        }
    }
    v
}

/// pixels with a NEGATIVE ZERO in one or more channels (-0.0 equals 0.0 and is inside every [0, x] domain, but its bit
/// pattern is the largest of all: comparisons or sorting done on the bits, `max`/`min` folds and sign tricks trip on it)
fn signed_zero_pixels() -> Vec<[f32; 3]> {
    let z = -0.0f32;
    vec![[0.9, z, 0.5], [z, 0.9, 0.5], [0.5, 0.9, z], [z, z, 0.7], [0.7, z, z], [z, 0.7, z], [z, z, z], [z, 0.0, 0.0], [0.25, z, 0.25], [1.0, 1.0, z], [z, 0.3, 0.3]]
}

/// nearly neutral pixels at several levels: channels within 2^-6 .. 2^-23 (relative) of each other, both signs, equal and
/// unequal offsets (the band between "exactly grey" and "visibly coloured" that lattices and random samples never hit)
fn near_neutral(max1: bool) -> Vec<[f32; 3]> {
    let mut v = Vec::new();
    for &g in &[1.0f32, 0.999, 0.985, 0.9, 0.5, 0.18, 0.02, 0.0125] {
        for k in 6..=23 {
            // quarter-octave steps: no band of relative width 20% between 2^-24 and 2^-6 is skipped
            for (j, m) in [1.0f32, 1.19, 1.41, 1.68].into_iter().enumerate() {
                let d = g * 2f32.powi(-k) * m;
                let up = if max1 && g + d > 1.0 { -d } else { d };
                v.push([g - d, g, g]);
                v.push([g, g + up, g - d]);
                match j {
                    0 => v.push([g + up, g, g + up]),
                    1 => v.push([g, g, g + up]),
                    2 => v.push([g + up, g, g - d * 0.5]),
                    _ => v.push([g, g - d, g]),
                }
            }
        }
    }
    v
}

// ------------------------------------------------------------------------------------------
pub fn gen_c04(sh: &mut Shards, o: &Opts) -> serde_json::Value {
    let mut rng = Rng::new(o.seed, 0x0404);
    let mut px: Vec<[f32; 3]> = Vec::new();
    // dense near-black stratum: log-spaced per channel 2^-30 .. 2^-6
    let nb = if o.thorough { 24 } else { 10 };
    let lv: Vec<f32> = (0..nb).map(|i| 2f64.powf(-30.0 + 24.0 * i as f64 / (nb - 1) as f64) as f32).collect();
    for &r in &lv {
        for &g in &lv {
            for &b in &lv {
                px.push([r, g, b]);
            }
        }
    }
    for &v in &lv {
        px.push([v, 0.0, 0.0]);
        px.push([0.0, v, 0.0]);
        px.push([0.0, 0.0, v]);
        px.push([v, v, v]);
    }
    px.extend(lattice(if o.thorough { 16 } else { 9 }, 0.0, 4.0));
    px.extend(lattice(if o.thorough { 17 } else { 9 }, 0.0, 1.0));
    px.extend(lattice(if o.thorough { 11 } else { 6 }, -1.0, 4.0)); // negative components (scope decided by the spec)
    let nr = if o.thorough { 60000 } else { 3000 };
    for _ in 0..nr {
        px.push([rng.f32_in(0.0, 4.0), rng.f32_in(0.0, 4.0), rng.f32_in(0.0, 4.0)]);
        px.push([rng.f32_in(0.0, 1.0), rng.f32_in(0.0, 1.0), rng.f32_in(0.0, 1.0)]);
        px.push([rng.f32_in(-1.0, 4.0), rng.f32_in(-1.0, 4.0), rng.f32_in(-1.0, 4.0)]);
        // strongly negative mixes (all three clamp)
        px.push([rng.f32_in(-1.0, -0.05), rng.f32_in(-1.0, -0.05), rng.f32_in(-1.0, 0.0)]);
    }
    for p in [[-1.0, -1.0, -1.0], [0.5, 0.5, -0.6], [4.0, 4.0, 4.0], [0.0, 0.0, 0.0], [1.0, 1.0, 1.0], [4.0, -1.0, 4.0], [-1.0, 4.0, -1.0]] {
        px.push(p);
    }
    px.extend(near_neutral(false));
    px.extend(signed_zero_pixels());
    let n = px.len() as u64;
    for (at, w, h) in cut_images(px.len(), 1) {
        let img = &px[at..at + w * h];
        emit_io(sh, "xyb", "", w, h, img, &[("out", xyb_of(img, w, h))], false);
    }
    let (w, h, big, mut idx) = big_unit(&mut rng, 0.0, 4.0);
    let whole = xyb_of(&big, w, h);
    crate::util::screen_idx(&mut idx, &whole, &big, &xyb_of);
    emit_io_probe(sh, "xyb", "", w, h, &big, &[("out", whole)], &idx, false);
    for (hw, hh) in huge_shapes(o, 0) {
        let (w, h, big, mut idx) = big_unit_wh(&mut rng, 0.0, 4.0, hw, hh);
        let whole = xyb_of(&big, w, h);
        crate::util::screen_idx(&mut idx, &whole, &big, &xyb_of);
        emit_io_probe(sh, "xyb", "", w, h, &big, &[("out", whole)], &idx, false);
    }
    let echo = echo_image(&lattice(4, 0.0, 1.0), |p| xyb_of(p, 1, 1));
    for (at, w, h) in cut_images(echo.len(), 5) {
        let img = &echo[at..at + w * h];
        emit_io(sh, "xyb", "\"echo\":1,", w, h, img, &[("out", xyb_of(img, w, h))], false);
    }
    conc_events(sh, o, "xyb");
    serde_json::json!({"pixels": n + (w * h) as u64, "distinct": n})
}

pub fn gen_c05(sh: &mut Shards, o: &Opts) -> serde_json::Value {
    let mut rng = Rng::new(o.seed, 0x0505);
    let mut px = lattice(if o.thorough { 32 } else { 13 }, 0.0, 1.0);
    let nb = if o.thorough { 16 } else { 8 };
    let lv: Vec<f32> = (0..nb).map(|i| 2f64.powf(-24.0 + 22.0 * i as f64 / (nb - 1) as f64) as f32).collect();
    for &r in &lv {
        for &g in &lv {
            for &b in &lv {
                px.push([r, g, b]);
            }
        }
    }
    let nr = if o.thorough { 100_000 } else { 4000 };
    for _ in 0..nr {
        px.push([rng.f32_in(0.0, 1.0), rng.f32_in(0.0, 1.0), rng.f32_in(0.0, 1.0)]);
    }
    px.extend(near_neutral(true));
    px.extend(signed_zero_pixels());
    let n = px.len() as u64;
    for (at, w, h) in cut_images(px.len(), 2) {
        let img = &px[at..at + w * h];
        let mid = xyb_of(img, w, h);
        let back = mid.clone().and_then(|m| lin_of_xyb(&m, w, h));
        emit_io(sh, "xybrt", "", w, h, img, &[("mid", mid), ("back", back)], false);
    }
    let (w, h, big, mut idx) = big_unit(&mut rng, 0.0, 1.0);
    let mid = xyb_of(&big, w, h);
    let back = mid.clone().and_then(|m| lin_of_xyb(&m, w, h));
    crate::util::screen_idx(&mut idx, &back, &big, &|c, cw, ch| xyb_of(c, cw, ch).and_then(|m| lin_of_xyb(&m, cw, ch)));
    emit_io_probe(sh, "xybrt", "", w, h, &big, &[("mid", mid), ("back", back)], &idx, false);
    for (hw, hh) in huge_shapes(o, 1) {
        let (w, h, big, mut idx) = big_unit_wh(&mut rng, 0.0, 1.0, hw, hh);
        let mid = xyb_of(&big, w, h);
        let back = mid.clone().and_then(|m| lin_of_xyb(&m, w, h));
        crate::util::screen_idx(&mut idx, &back, &big, &|c, cw, ch| xyb_of(c, cw, ch).and_then(|m| lin_of_xyb(&m, cw, ch)));
        emit_io_probe(sh, "xybrt", "", w, h, &big, &[("mid", mid), ("back", back)], &idx, false);
    }
    // echo: p followed by (xyb(p) clamped into the unit cube) and repeats
    let echo: Vec<[f32; 3]> = echo_image(&lattice(4, 0.0, 1.0), |p| xyb_of(p, 1, 1)).into_iter().map(|p| [p[0].clamp(0.0, 1.0), p[1].clamp(0.0, 1.0), p[2].clamp(0.0, 1.0)]).collect();
    for (at, w, h) in cut_images(echo.len(), 6) {
        let img = &echo[at..at + w * h];
        let mid = xyb_of(img, w, h);
        let back = mid.clone().and_then(|m| lin_of_xyb(&m, w, h));
        emit_io(sh, "xybrt", "\"echo\":1,", w, h, img, &[("mid", mid), ("back", back)], false);
    }
    conc_events(sh, o, "xybrt");
    serde_json::json!({"pixels": n + (w * h) as u64, "distinct": n})
}

// ------------------------------------------------------------------------------------------
fn prim_to709(c: u8, px: &[[f32; 3]], w: usize, h: usize) -> Result<Vec<[f32; 3]>, &'static str> {
    crate::util::guard2(|| prim_to709_inner(c, px, w, h))
}
fn prim_to709_inner(c: u8, px: &[[f32; 3]], w: usize, h: usize) -> Result<Vec<[f32; 3]>, &'static str> {
    let rgb = crate::srcs::rgb(px, w, h, tc(8), cp(c))?;
    match LinearRgb::try_from(rgb) {
        Ok(l) => {
            if l.width() != w || l.height() != h || l.data().len() != px.len() {
                return Err("shape");
            }
            Ok(l.data().to_vec())
        }
        Err(e) => Err(crate::frames::err_name_conv(e)),
    }
}
fn prim_from709(c: u8, px: &[[f32; 3]], w: usize, h: usize) -> Result<Vec<[f32; 3]>, &'static str> {
    crate::util::guard2(|| prim_from709_inner(c, px, w, h))
}
fn prim_from709_inner(c: u8, px: &[[f32; 3]], w: usize, h: usize) -> Result<Vec<[f32; 3]>, &'static str> {
    let lin = crate::srcs::lin(px, w, h)?;
    match Rgb::try_from((lin, tc(8), cp(c))) {
        Ok(r) => {
            if r.width() != w || r.height() != h || r.data().len() != px.len() {
                return Err("shape");
            }
            Ok(r.data().to_vec())
        }
        Err(e) => Err(crate::frames::err_name_conv(e)),
    }
}

fn prim_inputs(o: &Opts, rng: &mut Rng) -> Vec<[f32; 3]> {
    let mut px = lattice(if o.thorough { 9 } else { 6 }, -0.5, 2.0);
    for i in 0..=16 {
        let g = -0.5 + 2.5 * (i as f32) / 16.0;
        px.push([g, g, g]);
        px.push([g, 0.0, 0.0]);
        px.push([0.0, g, 0.0]);
        px.push([0.0, 0.0, g]);
    }
    px.push([1.0, 1.0, 1.0]);
    px.push([0.0, 0.0, 0.0]);
    // values whose BITS a "multiply by the identity matrix" would change although their value stays (signed zeros),
    // subnormals and the smallest normals (flush-to-zero paths)
    px.push([-0.0, 0.5, 0.25]);
    px.push([0.5, -0.0, 0.25]);
    px.push([0.25, 0.5, -0.0]);
    px.push([-0.0, -0.0, -0.0]);
    px.push([1.0e-40, -1.0e-40, 1.0e-45]);
    px.push([f32::MIN_POSITIVE, -f32::MIN_POSITIVE, -1.0e-45]);
    let nr = if o.thorough { 2000 } else { 300 };
    for _ in 0..nr {
        px.push([rng.f32_in(-0.5, 2.0), rng.f32_in(-0.5, 2.0), rng.f32_in(-0.5, 2.0)]);
    }
    px
}

pub fn gen_c06(sh: &mut Shards, o: &Opts) -> serde_json::Value {
    let mut n = 0u64;
    for (ci, &c) in CP_SUP.iter().enumerate() {
        let mut rng = Rng::new(o.seed, 0x0606_0000 + ci as u64);
        let px = prim_inputs(o, &mut rng);
        n += 2 * px.len() as u64;
        for (at, w, h) in cut_images(px.len(), ci) {
            let img = &px[at..at + w * h];
            let x = format!("\"cp\":{c},\"dir\":\"to709\",");
            let a = prim_to709(c, img, w, h);
            let back = a.clone().and_then(|m| prim_from709(c, &m, w, h));
            emit_io(sh, "prim", &x, w, h, img, &[("out", a), ("back", back)], true);
            let x = format!("\"cp\":{c},\"dir\":\"from709\",");
            let a = prim_from709(c, img, w, h);
            let back = a.clone().and_then(|m| prim_to709(c, &m, w, h));
            emit_io(sh, "prim", &x, w, h, img, &[("out", a), ("back", back)], true);
        }
    }
    for (k, &c) in [9u8, 4, 10, 12, 22].iter().enumerate() {
        for (hw, hh) in huge_shapes(o, 2 + k).into_iter().rev().take(if o.thorough { 5 } else if k < 2 { 2 } else { 0 }) {
            let mut rng = Rng::new(o.seed, 0x0606_b170 + u64::from(c));
            let (w, h, big, mut idx) = big_unit_wh(&mut rng, -0.5, 2.0, hw, hh);
            let a = prim_to709(c, &big, w, h);
            crate::util::screen_idx(&mut idx, &a, &big, &|q, cw, ch| prim_to709(c, q, cw, ch));
            let back = a.clone().and_then(|m| prim_from709(c, &m, w, h));
            emit_io_probe(sh, "prim", &format!("\"cp\":{c},\"dir\":\"to709\","), w, h, &big, &[("out", a), ("back", back)], &idx, true);
            let a = prim_from709(c, &big, w, h);
            crate::util::screen_idx(&mut idx, &a, &big, &|q, cw, ch| prim_from709(c, q, cw, ch));
            let back = a.clone().and_then(|m| prim_to709(c, &m, w, h));
            emit_io_probe(sh, "prim", &format!("\"cp\":{c},\"dir\":\"from709\","), w, h, &big, &[("out", a), ("back", back)], &idx, true);
            n += 2 * (w * h) as u64;
        }
    }
    for &c in &[9u8, 4, 10] {
        let mut rng = Rng::new(o.seed, 0x0606_b160 + u64::from(c));
        let (w, h, big, mut idx) = big_unit(&mut rng, -0.5, 2.0);
        let a = prim_to709(c, &big, w, h);
        crate::util::screen_idx(&mut idx, &a, &big, &|q, cw, ch| prim_to709(c, q, cw, ch));
        let back = a.clone().and_then(|m| prim_from709(c, &m, w, h));
        emit_io_probe(sh, "prim", &format!("\"cp\":{c},\"dir\":\"to709\","), w, h, &big, &[("out", a), ("back", back)], &idx, true);
        let a = prim_from709(c, &big, w, h);
        crate::util::screen_idx(&mut idx, &a, &big, &|q, cw, ch| prim_from709(c, q, cw, ch));
        let back = a.clone().and_then(|m| prim_to709(c, &m, w, h));
        emit_io_probe(sh, "prim", &format!("\"cp\":{c},\"dir\":\"from709\","), w, h, &big, &[("out", a), ("back", back)], &idx, true);
        n += 2 * (w * h) as u64;
    }
    // call-order histories on one thread: a conversion with primaries a, then one with primaries b (every ordered pair,
    // every combination of directions); b is judged.  Caches keyed on (too little of) the configuration show here.
    let small: Vec<[f32; 3]> = vec![[1.0, 1.0, 1.0], [0.18, 0.18, 0.18], [1.0, 0.0, 0.0], [0.0, 1.0, 0.0], [0.0, 0.0, 1.0], [0.25, 0.5, 0.75], [-0.25, 1.5, 0.1]];
    for &a in &CP_SUP {
        for &b in &CP_SUP {
            if a == b {
                continue;
            }
            for (da, db) in [(0, 0), (1, 1), (0, 1), (1, 0)] {
                let _ = if da == 0 { prim_to709(a, &small, small.len(), 1) } else { prim_from709(a, &small, small.len(), 1) };
                let (dir, out) = if db == 0 { ("to709", prim_to709(b, &small, small.len(), 1)) } else { ("from709", prim_from709(b, &small, small.len(), 1)) };
                let back = out.clone().and_then(|m| if db == 0 { prim_from709(b, &m, small.len(), 1) } else { prim_to709(b, &m, small.len(), 1) });
                emit_io(sh, "prim", &format!("\"cp\":{b},\"dir\":\"{dir}\",\"after\":[{a},{da}],"), small.len(), 1, &small, &[("out", out), ("back", back)], true);
                n += small.len() as u64;
            }
        }
    }
    conc_events(sh, o, "prim");
    serde_json::json!({"pixels": n, "primaries_direction_pairs": 22, "distinct": n})
}

// ------------------------------------------------------------------------------------------
fn hsl_of(px: &[[f32; 3]], w: usize, h: usize) -> Result<Vec<[f32; 3]>, &'static str> {
    crate::util::guard2(|| hsl_of_inner(px, w, h))
}
fn hsl_of_inner(px: &[[f32; 3]], w: usize, h: usize) -> Result<Vec<[f32; 3]>, &'static str> {
    let lin = crate::srcs::lin(px, w, h)?;
    let x = Hsl::from(lin);
    if x.width() != w || x.height() != h || x.data().len() != px.len() {
        return Err("shape");
    }
    Ok(x.data().to_vec())
}
fn lin_of_hsl(px: &[[f32; 3]], w: usize, h: usize) -> Result<Vec<[f32; 3]>, &'static str> {
    crate::util::guard2(|| lin_of_hsl_inner(px, w, h))
}
fn lin_of_hsl_inner(px: &[[f32; 3]], w: usize, h: usize) -> Result<Vec<[f32; 3]>, &'static str> {
    let x = crate::srcs::hsl(px, w, h)?;
    let l = LinearRgb::from(x);
    if l.width() != w || l.height() != h || l.data().len() != px.len() {
        return Err("shape");
    }
    Ok(l.data().to_vec())
}

pub fn gen_c17(sh: &mut Shards, o: &Opts) -> serde_json::Value {
    let mut rng = Rng::new(o.seed, 0x1717);
    let mut px = lattice(if o.thorough { 24 } else { 11 }, 0.0, 1.0);
    // the six sextants (orderings of the three channels) and their boundaries (ties)
    let perms: [[usize; 3]; 6] = [[0, 1, 2], [0, 2, 1], [1, 0, 2], [1, 2, 0], [2, 0, 1], [2, 1, 0]];
    let nr = if o.thorough { 20000 } else { 1200 };
    for i in 0..nr {
        let mut v = [rng.f32_in(0.0, 1.0), rng.f32_in(0.0, 1.0), rng.f32_in(0.0, 1.0)];
        v.sort_by(|a, b| a.partial_cmp(b).unwrap());
        let p = perms[i % 6];
        let mut q = [0f32; 3];
        q[p[0]] = v[0];
        q[p[1]] = v[1];
        q[p[2]] = v[2];
        px.push(q);
        // ties: two channels equal (max tie, min tie)
        let mut t = q;
        t[p[1]] = t[p[2]];
        px.push(t);
        let mut t = q;
        t[p[1]] = t[p[0]];
        px.push(t);
        // near ties: two channels a few ulps apart (the sextant boundaries from both sides; hue wraps at 0/360)
        for d in [1i32, -1, 3, -3] {
            let mut t = q;
            t[p[1]] = f32::from_bits((t[p[2]].to_bits() as i32 + d).max(0) as u32).clamp(0.0, 1.0);
            px.push(t);
            let mut t = q;
            t[p[1]] = f32::from_bits((t[p[0]].to_bits() as i32 + d).max(0) as u32).clamp(0.0, 1.0);
            px.push(t);
        }
        // near-grey and near-black / near-white
        let g = rng.f32_in(0.0, 1.0);
        let e = rng.f32_in(0.0, 0.02);
        px.push([g, (g + e).min(1.0), (g - e).max(0.0)]);
        let k = 2f32.powf(rng.f32_in(-16.0, -4.0));
        px.push([q[0] * k, q[1] * k, q[2] * k]);
        px.push([1.0 - q[0] * k, 1.0 - q[1] * k, 1.0 - q[2] * k]);
    }
    for g in 0..=64 {
        let v = g as f32 / 64.0;
        px.push([v, v, v]);
    }
    // nearly grey pixels (S is judged for 0.01 <= L <= 0.99, the round trip everywhere)
    px.extend(near_neutral(true));
    px.extend(signed_zero_pixels());
    // hues a hair away from every sextant boundary: the middle channel 2^-8 .. 2^-26 (quarter-octave steps) of the chroma
    // above the minimum or below the maximum, for every ordering of the channels (the float just below 360 is among them)
    for &(hi, lo) in &[(1.0f32, 0.0f32), (0.8, 0.2)] {
        for p in perms {
            for k in 8..=26 {
                for m in [1.0f32, 1.19, 1.41, 1.68] {
                    let d = (hi - lo) * 2f32.powi(-k) * m;
                    for mid in [lo + d, hi - d] {
                        let mut q = [0f32; 3];
                        q[p[0]] = hi;
                        q[p[1]] = mid;
                        q[p[2]] = lo;
                        px.push(q);
                    }
                }
            }
        }
    }
    let n = px.len() as u64;
    for (at, w, h) in cut_images(px.len(), 3) {
        let img = &px[at..at + w * h];
        let mid = hsl_of(img, w, h);
        let back = mid.clone().and_then(|m| lin_of_hsl(&m, w, h));
        emit_io(sh, "hsl", "", w, h, img, &[("out", mid), ("back", back)], false);
    }
    for (hw, hh) in huge_shapes(o, 3) {
        let (w, h, big, mut idx) = big_unit_wh(&mut rng, 0.0, 1.0, hw, hh);
        let mid = hsl_of(&big, w, h);
        crate::util::screen_idx(&mut idx, &mid, &big, &hsl_of);
        let back = mid.clone().and_then(|m| lin_of_hsl(&m, w, h));
        crate::util::screen_idx(&mut idx, &back, &big, &|c, cw, ch| hsl_of(c, cw, ch).and_then(|m| lin_of_hsl(&m, cw, ch)));
        emit_io_probe(sh, "hsl", "", w, h, &big, &[("out", mid), ("back", back)], &idx, false);
    }
    {
        let (w, h, big, mut idx) = big_unit(&mut rng, 0.0, 1.0);
        let mid = hsl_of(&big, w, h);
        crate::util::screen_idx(&mut idx, &mid, &big, &hsl_of);
        let back = mid.clone().and_then(|m| lin_of_hsl(&m, w, h));
        crate::util::screen_idx(&mut idx, &back, &big, &|c, cw, ch| hsl_of(c, cw, ch).and_then(|m| lin_of_hsl(&m, cw, ch)));
        emit_io_probe(sh, "hsl", "", w, h, &big, &[("out", mid), ("back", back)], &idx, false);
        // echo: a pixel followed by the pixel that equals its own HSL result (possible when H = 0: greys and pure reds)
        let mut src: Vec<[f32; 3]> = Vec::new();
        for g in 0..=8 {
            let v = g as f32 / 8.0;
            src.push([v, v, v]);
            src.push([v, 0.0, 0.0]);
            src.push([1.0, v, v]);
        }
        let echo: Vec<[f32; 3]> = echo_image(&src, |p| hsl_of(p, 1, 1)).into_iter().filter(|q| q.iter().all(|x| (0.0..=1.0).contains(x))).collect();
        for (at, w, h) in cut_images(echo.len(), 9) {
            let img = &echo[at..at + w * h];
            let mid = hsl_of(img, w, h);
            let back = mid.clone().and_then(|m| lin_of_hsl(&m, w, h));
            emit_io(sh, "hsl", "\"echo\":1,", w, h, img, &[("out", mid), ("back", back)], false);
        }
        // small chroma (max - min in [0.01, 0.06]) with the two largest channels 1e-6 .. 1e-5 apart: the sextant decision
        // matters most where the hue formula divides by a small chroma
        let mut close: Vec<[f32; 3]> = Vec::new();
        for i in 0..240 {
            let g = 0.1 + 0.8 * (rng.unit() as f32);
            let c = 0.01 + 0.05 * (rng.unit() as f32);
            let d = [1e-6f32, 3e-6, 5e-6, 9e-6][i % 4];
            let tri = [g, g - d, g - c];
            let perm = [[0usize, 1, 2], [1, 0, 2], [0, 2, 1], [2, 0, 1], [1, 2, 0], [2, 1, 0]][i % 6];
            close.push([tri[perm[0]], tri[perm[1]], tri[perm[2]]]);
        }
        for (at, w, h) in cut_images(close.len(), 10) {
            let img = &close[at..at + w * h];
            let mid = hsl_of(img, w, h);
            let back = mid.clone().and_then(|m| lin_of_hsl(&m, w, h));
            emit_io(sh, "hsl", "\"close\":1,", w, h, img, &[("out", mid), ("back", back)], false);
        }
        // runs of identical pixels and alternations (state carried from one pixel to the next)
        let mut runs: Vec<[f32; 3]> = Vec::new();
        for p in lattice(3, 0.0, 1.0) {
            runs.extend([p, p, [p[2], p[0], p[1]], p, p, p]);
        }
        for (at, w, h) in cut_images(runs.len(), 8) {
            let img = &runs[at..at + w * h];
            let mid = hsl_of(img, w, h);
            let back = mid.clone().and_then(|m| lin_of_hsl(&m, w, h));
            emit_io(sh, "hsl", "\"runs\":1,", w, h, img, &[("out", mid), ("back", back)], false);
        }
    }
    // reverse direction from HSL triples: L = 0 is black, L = 1 is white for any H, S in range
    let mut hs: Vec<[f32; 3]> = Vec::new();
    let (nh, ns) = if o.thorough { (72, 11) } else { (24, 6) };
    for i in 0..nh {
        for j in 0..ns {
            let hue = 360.0 * (i as f32) / (nh as f32);
            let s = j as f32 / (ns - 1) as f32;
            hs.push([hue, s, 0.0]);
            hs.push([hue, s, 1.0]);
        }
    }
    for _ in 0..(nr / 4) {
        hs.push([rng.f32_in(0.0, 359.999), rng.f32_in(0.0, 1.0), if rng.below(2) == 0 { 0.0 } else { 1.0 }]);
    }
    hs.push([f32::from_bits(360f32.to_bits() - 1), 1.0, 0.0]);
    hs.push([f32::from_bits(360f32.to_bits() - 1), 1.0, 1.0]);
    let m = hs.len() as u64;
    for (at, w, h) in cut_images(hs.len(), 4) {
        let img = &hs[at..at + w * h];
        emit_io(sh, "hslinv", "", w, h, img, &[("out", lin_of_hsl(img, w, h))], false);
    }
    conc_events(sh, o, "hsl");
    serde_json::json!({"pixels": n + m, "distinct": n + m})
}

// ------------------------------------------------------------------------------------------
/// C16: grey through primaries, XYB and HSL
pub fn gen_c16_color(sh: &mut Shards, o: &Opts) -> u64 {
    let mut rng = Rng::new(o.seed, 0x1616_0001);
    let ng = if o.thorough { 1 << 16 } else { 1 << 11 };
    let mut greys: Vec<[f32; 3]> = Vec::new();
    for i in 0..=ng {
        let v = i as f32 / ng as f32;
        greys.push([v, v, v]);
    }
    for _ in 0..ng / 4 {
        let v = rng.f32_in(0.0, 1.0);
        greys.push([v, v, v]);
        let v = 2f32.powf(rng.f32_in(-24.0, 0.0));
        greys.push([v, v, v]);
    }
    let mut n = 0u64;
    for (at, w, h) in cut_images(greys.len(), 6) {
        let img = &greys[at..at + w * h];
        emit_io(sh, "xybgrey", "", w, h, img, &[("out", xyb_of(img, w, h))], false);
        emit_io(sh, "hslgrey", "", w, h, img, &[("out", hsl_of(img, w, h))], false);
        n += 2 * img.len() as u64;
    }
    // greys NEXT TO colours (only the grey pixels are judged): small images, and frames of more than 2^20 pixels in the
    // four shapes (sizes not divisible by 4 included), probed at the usual positions plus wherever the whole-frame result
    // differs from the same pixels converted in small pieces
    let mut mixed: Vec<[f32; 3]> = Vec::new();
    for i in 0..(if o.thorough { 4096 } else { 512 }) {
        let v = if i % 5 == 0 { [0.0f32, 1.0, 0.5, 0.18, 2f32.powi(-12)][(i / 5) % 5] } else { rng.f32_in(0.0, 1.0) };
        mixed.push([v, v, v]);
        mixed.push([rng.f32_in(0.0, 1.0), rng.f32_in(0.0, 1.0), rng.f32_in(0.0, 1.0)]);
        if i % 3 == 0 {
            mixed.push([v, v, v]);
        }
    }
    for (at, w, h) in cut_images(mixed.len(), 8) {
        let img = &mixed[at..at + w * h];
        emit_io(sh, "xybgrey", "\"mix\":1,", w, h, img, &[("out", xyb_of(img, w, h))], false);
        emit_io(sh, "hslgrey", "\"mix\":1,", w, h, img, &[("out", hsl_of(img, w, h))], false);
        n += 2 * img.len() as u64;
    }
    for (hw, hh) in huge_shapes(o, 5) {
        let npx = hw * hh;
        let big: Vec<[f32; 3]> = (0..npx)
            .map(|i| {
                if i % 3 != 1 {
                    let v = ((i as u64 * 2_654_435_761) % 4099) as f32 / 4098.0;
                    [v, v, v]
                } else {
                    [rng.f32_in(0.0, 1.0), rng.f32_in(0.0, 1.0), rng.f32_in(0.0, 1.0)]
                }
            })
            .collect();
        let mut idx = crate::util::probe_indices(npx, hw, &mut rng);
        let whole = xyb_of(&big, hw, hh);
        crate::util::screen_idx(&mut idx, &whole, &big, &xyb_of);
        emit_io_probe(sh, "xybgrey", "\"mix\":1,", hw, hh, &big, &[("out", whole)], &idx, false);
        let mut idx = crate::util::probe_indices(npx, hw, &mut rng);
        let whole = hsl_of(&big, hw, hh);
        crate::util::screen_idx(&mut idx, &whole, &big, &hsl_of);
        emit_io_probe(sh, "hslgrey", "\"mix\":1,", hw, hh, &big, &[("out", whole)], &idx, false);
        n += 2 * idx.len() as u64;
    }
    // primaries: greys in [-0.5, 2] (the C06 domain), every primaries set, both directions
    let np = if o.thorough { 1024 } else { 96 };
    let pg: Vec<[f32; 3]> = (0..=np).map(|i| -0.5 + 2.5 * i as f32 / np as f32).chain([0.0, 1.0, 0.18].into_iter()).map(|v| [v, v, v]).collect();
    for (ci, &c) in CP_SUP.iter().enumerate() {
        for (at, w, h) in cut_images(pg.len(), ci) {
            let img = &pg[at..at + w * h];
            emit_io(sh, "primgrey", &format!("\"cp\":{c},\"dir\":\"to709\","), w, h, img, &[("out", prim_to709(c, img, w, h))], false);
            emit_io(sh, "primgrey", &format!("\"cp\":{c},\"dir\":\"from709\","), w, h, img, &[("out", prim_from709(c, img, w, h))], false);
            n += 2 * img.len() as u64;
        }
    }
    n
}
