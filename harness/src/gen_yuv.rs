//! Trace generators for the YUV<->RGB matrix stage: C01 (decode), C02 (encode), C08 (code round trip),
//! and the YUV part of C16 (neutral axis).  Inputs only - no expected values anywhere.

use std::collections::BTreeSet;
use std::fmt::Write as _;

use yuvxyb::{Pixel, Rgb, Yuv};

use crate::frames::{cfg_json_of, plane_samples, yuv444, Cfg};
use crate::util::{cp, cut_images, fx32, list, px_fx, tc, Rng, Shards, MC_STD};
use crate::Opts;

pub fn all_matrix_cfgs() -> Vec<(Cfg, u8)> {
    // (config, storage bits): u8 storage for n=8, u16 storage for n=8..16
    let mut v = Vec::new();
    for &m in &MC_STD {
        for full in [false, true] {
            for n in 8u8..=16 {
                let c = Cfg { mc: m, tc: 1, cp: 1, full, n, ssx: 0, ssy: 0 };
                if n == 8 {
                    v.push((c, 8));
                }
                v.push((c, 16));
            }
        }
    }
    v
}

fn anchors(n: u8, chroma: bool) -> Vec<u16> {
    let k = 1u32 << (n - 8);
    let max = (1u32 << n) - 1;
    let mid = 1u32 << (n - 1);
    let white = if chroma { 240 * k } else { 235 * k };
    let mut s = BTreeSet::new();
    for v in [0, 1, 16 * k - 1, 16 * k, 16 * k + 1, mid - 1, mid, mid + 1, white - 1, white, white + 1, max - 1, max] {
        if v <= max {
            s.insert(v as u16);
        }
    }
    s.into_iter().collect()
}

fn sweep(n: u8, limit: usize, rng: &mut Rng) -> Vec<u16> {
    let total = 1usize << n;
    if total <= limit {
        (0..total).map(|v| v as u16).collect()
    } else {
        // strided with a random phase, plus both ends
        let step = total / limit;
        let ph = rng.below(step as u64) as usize;
        let mut v: Vec<u16> = (0..limit).map(|i| (ph + i * step).min(total - 1) as u16).collect();
        v.push(0);
        v.push((total - 1) as u16);
        v
    }
}

/// the code triples of one config for C01
fn decode_inputs(c: &Cfg, o: &Opts, rng: &mut Rng) -> Vec<[u16; 3]> {
    let n = c.n;
    let max = ((1u32 << n) - 1) as u16;
    let mid = (1u32 << (n - 1)) as u16;
    let ay = anchors(n, false);
    let ac = anchors(n, true);
    let mut px = Vec::new();
    for &y in &ay {
        for &u in &ac {
            for &v in &ac {
                px.push([y, u, v]);
            }
        }
    }
    let lim = if o.thorough { 4096 } else { 256 };
    for (u, v) in [(mid, mid), (0, max), (max, 0), (max, max), (0, 0)] {
        for y in sweep(n, lim, rng) {
            px.push([y, u, v]);
        }
    }
    for y in [0, mid, max] {
        for w in [0, mid, max] {
            for s in sweep(n, lim, rng) {
                px.push([y, s, w]);
                px.push([y, w, s]);
            }
        }
    }
    let nr = if o.thorough { 20000 } else { 600 };
    for _ in 0..nr {
        px.push([rng.below(u64::from(max) + 1) as u16, rng.below(u64::from(max) + 1) as u16, rng.below(u64::from(max) + 1) as u16]);
    }
    px
}

/// per-plane paddings that rotate with the image: every third image is tightly packed, the others get planes of
/// different strides and origins (the decode must not care)
fn pads_for(k: usize) -> [(usize, usize); 3] {
    match k % 3 {
        0 => [(0, 0); 3],
        1 => [(0, 0), (17, 1), (0, 2)],
        _ => [(3, 1), (0, 0), (33, 0)],
    }
}

fn emit_dec<T: Pixel>(sh: &mut Shards, c: &Cfg, st: u8, px: &[[u16; 3]], w: usize, h: usize, ev: &str) {
    let k = px.len() + w + usize::from(px[0][0]);
    let built = if k % 4 == 3 {
        Yuv::new(crate::frames::frame_packed_luma::<T>(px, w, h, c.ssx, c.ssy, pads_for(k)), c.yuv_config())
    } else {
        crate::frames::yuv444_padded::<T>(px, w, h, c, pads_for(k))
    };
    let yuv: Yuv<T> = match built {
        Ok(y) => y,
        Err(e) => {
            sh.emit(&format!("\"ev\":\"{ev}\",\"cfg\":{},\"st\":{st},\"w\":{w},\"h\":{h},\"res\":\"ctor:{}\"", c.json(), crate::frames::err_name_yuv(e)));
            return;
        }
    };
    let mut s = String::with_capacity(64 + px.len() * 120);
    let _ = write!(s, "\"ev\":\"{ev}\",\"cfg\":{},\"st\":{st},\"w\":{w},\"h\":{h},\"px\":", c.json());
    list(&mut s, px, |o, p| {
        let _ = write!(o, "[{},{},{}]", p[0], p[1], p[2]);
    });
    match crate::util::guard(|| Rgb::try_from(&yuv)).map_err(|p| p.to_string()).and_then(|r| r.map_err(|e| crate::frames::err_name_conv(e).to_string())) {
        Ok(rgb) => {
            let _ = write!(s, ",\"res\":\"ok\",\"wo\":{},\"ho\":{},\"tco\":{},\"cpo\":{},\"out\":", rgb.width(), rgb.height(), rgb.transfer() as u8, rgb.primaries() as u8);
            list(&mut s, rgb.data(), px_fx);
            if ev == "grey" {
                s.push_str(",\"ob\":");
                list(&mut s, rgb.data(), crate::util::px_bits);
            }
        }
        Err(e) => {
            let _ = write!(s, ",\"res\":\"{e}\"");
        }
    }
    sh.emit(&s);
}

pub fn gen_c01(sh: &mut Shards, o: &Opts) -> serde_json::Value {
    let mut evals = 0u64;
    let mut cfgs = 0u64;
    for (ci, (c, st)) in all_matrix_cfgs().into_iter().enumerate() {
        let mut rng = Rng::new(o.seed, 0x0101_0000 + ci as u64);
        // vary the (unused) transfer / primaries labels too: the decode must pass them through
        let c = Cfg { tc: [1, 13, 16, 8][ci % 4], cp: [1, 9, 5, 12][ci % 4], ..c };
        let px = decode_inputs(&c, o, &mut rng);
        evals += px.len() as u64;
        cfgs += 1;
        for (k, (at, w, h)) in cut_images(px.len(), ci).into_iter().enumerate() {
            let img = &px[at..at + w * h];
            // the decode must ignore transfer and primaries: rotate them over every supported value
            let c = Cfg { tc: crate::util::TC_LBL[(k + ci) % 18], cp: crate::util::CP_LBL[(k / 18 + ci) % 13], ..c };
            if st == 8 {
                emit_dec::<u8>(sh, &c, st, img, w, h, "dec");
            } else {
                emit_dec::<u16>(sh, &c, st, img, w, h, "dec");
            }
        }
    }
    // call-order histories on one thread: a decode with config A (any matrix code, incl. the primaries-derived ones), then a
    // decode with a standard config B; B is judged.  State surviving a call (memoised matrices, tables) shows here.
    {
        let mut rng = Rng::new(o.seed, 0x0101_c000);
        for &ma in &crate::util::MC_ALL {
            for &pa in &[1u8, 5, 9, 22, 6, 10] {
                for &mb in &MC_STD {
                    for full in [false, true] {
                        let n = if (ma + mb) % 2 == 0 { 8u8 } else { 10 };
                        let a = Cfg { mc: ma, tc: 1, cp: pa, full: !full, n, ssx: 0, ssy: 0 };
                        let b = Cfg { mc: mb, tc: 13, cp: if pa == 22 { 6 } else if pa == 6 { 22 } else { [1u8, 9, 5, 6][(ma as usize + mb as usize) % 4] }, full, n, ssx: 0, ssy: 0 };
                        let maxc = (1u64 << n) - 1;
                        let px: Vec<[u16; 3]> = (0..7).map(|_| [rng.below(maxc + 1) as u16, rng.below(maxc + 1) as u16, rng.below(maxc + 1) as u16]).collect();
                        if let Ok(ya) = yuv444::<u16>(&px, 7, 1, &a) {
                            let _ = crate::util::guard(|| Rgb::try_from(&ya).map(|r| r.data().len()));
                        }
                        emit_dec::<u16>(sh, &b, 16, &px, 7, 1, "dec");
                        evals += 7;
                    }
                }
            }
        }
    }
    // large images (position-dependent code paths): converted whole, probed at chunk boundaries and random positions
    for (k, (c, st)) in all_matrix_cfgs().into_iter().enumerate().filter(|(k, _)| k % 23 == 0) {
        let mut rng = Rng::new(o.seed, 0x0101_b160 + k as u64);
        // every other one of these frames has more than 2^20 pixels (full HD / single row / single column / 2049x1025)
        let (w, h) = if (k / 23) % 2 == 1 && !o.mini { crate::util::huge(k / 23 / 2 + o.seed as usize) } else { crate::util::big(k / 23) };
        let maxc = (1u64 << c.n) - 1;
        let px: Vec<[u16; 3]> = (0..w * h).map(|_| [rng.below(maxc + 1) as u16, rng.below(maxc + 1) as u16, rng.below(maxc + 1) as u16]).collect();
        let idx = crate::util::probe_indices(w * h, w, &mut rng);
        if st == 8 {
            emit_dec_probe::<u8>(sh, &c, st, &px, w, h, &idx);
        } else {
            emit_dec_probe::<u16>(sh, &c, st, &px, w, h, &idx);
        }
        evals += (w * h) as u64;
    }
    // partly grey pictures: neutral chroma in the top rows (or the bottom rows, or the left half) and colour elsewhere.
    // A "this image is greyscale" early-out that looks at a prefix of the chroma buffers (stride and padding included)
    // is fooled by exactly these.  Every storage / range / matrix, several widths (planes are padded to 64 bytes).
    for (ci, (c, st)) in all_matrix_cfgs().into_iter().enumerate() {
        if !(c.n == 8 || c.n == 10 || (o.thorough && c.n == 16)) {
            continue;
        }
        let mut rng = Rng::new(o.seed, 0x0101_6e00 + ci as u64);
        let mid = 1u16 << (c.n - 1);
        let maxc = (1u64 << c.n) - 1;
        for (k, &(w, h)) in [(8usize, 6usize), (24, 5), (40, 4), (64, 3), (3, 9)].iter().enumerate() {
            let mode = (ci + k) % 3;
            let px: Vec<[u16; 3]> = (0..w * h)
                .map(|i| {
                    let (x, y) = (i % w, i / w);
                    let grey = match mode {
                        0 => y < (h + 1) / 2,
                        1 => y >= h / 2,
                        _ => x < w / 2,
                    };
                    if grey {
                        [rng.below(maxc + 1) as u16, mid, mid]
                    } else {
                        [rng.below(maxc + 1) as u16, rng.below(maxc + 1) as u16, rng.below(maxc + 1) as u16]
                    }
                })
                .collect();
            if st == 8 {
                emit_dec::<u8>(sh, &c, st, &px, w, h, "dec");
            } else {
                emit_dec::<u16>(sh, &c, st, &px, w, h, "dec");
            }
            evals += (w * h) as u64;
        }
    }
    // large SUBSAMPLED frames with vertical and horizontal contrast (random chroma): row-band / tile splits of a decoder
    // must keep every pixel on the chroma sample of its own block.  Sizes chosen so that even splits into 2..16 bands,
    // and bands of 2^18 / width rows, start on odd rows for some of them.
    if !o.mini {
        let sizes: &[(usize, usize)] = if o.thorough { &[(640, 480), (1366, 768), (1920, 1084), (1920, 1086), (2048, 2050), (800, 600)] } else { &[(640, 480), (1366, 768), (1920, 1084), (2048, 2050)] };
        for (k, &(w, h)) in sizes.iter().enumerate() {
            for (j, &(sx, sy)) in [(1u8, 1u8), (0, 1), (1, 0)].iter().enumerate() {
                if !o.thorough && (k + j + o.seed as usize) % 3 == 2 && sy == 0 {
                    continue;
                }
                let n = [8u8, 10, 12, 16][(k + j) % 4];
                let c = Cfg { mc: MC_STD[(k * 3 + j) % 7], tc: crate::util::TC_LBL[(k + j) % 18], cp: crate::util::CP_LBL[(k + 2 * j) % 13], full: (k + j) % 2 == 0, n, ssx: sx, ssy: sy };
                let mut rng = Rng::new(o.seed, 0x0101_5b00 + (k * 8 + j) as u64);
                let maxc = (1u64 << n) - 1;
                let px: Vec<[u16; 3]> = (0..w * h).map(|_| [rng.below(maxc + 1) as u16, rng.below(maxc + 1) as u16, rng.below(maxc + 1) as u16]).collect();
                let idx = crate::util::probe_indices(w * h, w, &mut rng);
                if n == 8 && k % 2 == 0 {
                    emit_dec_probe::<u8>(sh, &c, 8, &px, w, h, &idx);
                } else {
                    emit_dec_probe::<u16>(sh, &c, 16, &px, w, h, &idx);
                }
                evals += (w * h) as u64;
            }
        }
    }
    // schedules: 8 threads decoding different configurations at once in a fresh process
    if !o.mini {
        if let Ok(o2) = std::process::Command::new(std::env::current_exe().expect("exe")).args(["concworker", "dec", "--seed", &o.seed.to_string()]).stderr(std::process::Stdio::null()).output() {
            if o2.status.success() {
                for line in String::from_utf8_lossy(&o2.stdout).lines() {
                    if line.starts_with("\"ev\"") {
                        sh.emit(line);
                    }
                }
            } else {
                sh.emit(&format!("\"ev\":\"dec\",\"probe\":1,\"conc\":[-1,0],\"cfg\":{},\"st\":8,\"w\":1,\"h\":1,\"px\":[],\"res\":\"abort:{}\"", all_matrix_cfgs()[0].0.json(), o2.status.to_string().replace('"', "'")));
            }
        }
    }
    serde_json::json!({"pixels": evals, "configs": cfgs})
}

fn emit_dec_probe<T: Pixel>(sh: &mut Shards, c: &Cfg, st: u8, px: &[[u16; 3]], w: usize, h: usize, idx: &[usize]) {
    sh.emit(&dec_probe_body::<T>("", c, st, px, w, h, idx));
}
/// SCHEDULES: 8 threads decode different configurations at the same moment in a fresh process (see gen_tf::conc_worker)
pub fn conc_worker(o: &Opts) {
    use std::sync::{Arc, Barrier};
    let nthreads = 8usize;
    let barrier = Arc::new(Barrier::new(nthreads));
    let seed = o.seed;
    let cfgs = all_matrix_cfgs();
    let handles: Vec<_> = (0..nthreads)
        .map(|j| {
            let b = barrier.clone();
            let (c, st) = cfgs[(j * 37 + (seed as usize) * 5) % cfgs.len()];
            std::thread::spawn(move || {
                let mut rng = Rng::new(seed, 0x0101_c0c0 + j as u64);
                let (w, h) = [(250usize, 164usize), (322, 128)][j % 2];
                let c = Cfg { ssx: [0u8, 1, 1, 0][j % 4], ssy: [0u8, 1, 0, 1][j % 4], ..c };
                let maxc = (1u64 << c.n) - 1;
                let px: Vec<[u16; 3]> = (0..w * h).map(|_| [rng.below(maxc + 1) as u16, rng.below(maxc + 1) as u16, rng.below(maxc + 1) as u16]).collect();
                let mut idx: Vec<usize> = (0..6).chain(w * h - 6..w * h).collect();
                for _ in 0..16 {
                    idx.push(rng.below((w * h) as u64) as usize);
                }
                idx.sort_unstable();
                idx.dedup();
                let mut out = Vec::new();
                b.wait();
                for round in 0..2 {
                    let extra = format!("\"conc\":[{j},{round}],");
                    out.push(if st == 8 { dec_probe_body::<u8>(&extra, &c, st, &px, w, h, &idx) } else { dec_probe_body::<u16>(&extra, &c, st, &px, w, h, &idx) });
                }
                out
            })
        })
        .collect();
    let stdout = std::io::stdout();
    let mut lock = stdout.lock();
    use std::io::Write as _;
    for hd in handles {
        if let Ok(lines) = hd.join() {
            for s in lines {
                let _ = writeln!(lock, "{s}");
            }
        }
    }
}
fn dec_probe_body<T: Pixel>(extra: &str, c: &Cfg, st: u8, px: &[[u16; 3]], w: usize, h: usize, idx: &[usize]) -> String {
    // the triple a pixel's result may depend on: its own luma and the chroma sample of its block (the top-left pixel's)
    let eff = |i: usize| -> [u16; 3] {
        let (x, y) = (i % w, i / w);
        let b = ((y >> c.ssy) << c.ssy) * w + ((x >> c.ssx) << c.ssx);
        [px[i][0], px[b][1], px[b][2]]
    };
    let pads = if w * h > 4096 { [(0usize, 0usize), (5, 1), (0, 0)] } else { [(0, 0); 3] };
    let built = crate::util::guard(|| crate::frames::yuv444_padded::<T>(px, w, h, c, pads));
    let whole: Result<Rgb, String> = match built {
        Ok(Ok(y)) => crate::util::guard(|| Rgb::try_from(&y)).map_err(|p| p.to_string()).and_then(|r| r.map_err(|e| crate::frames::err_name_conv(e).to_string())),
        other => Err(format!("ctor:{}", other.map(|r| r.map(|_| "").unwrap_or_else(crate::frames::err_name_yuv)).unwrap_or("panic"))),
    };
    // screen (untrusted, selects probe positions only): the same picture decoded in independent bands of 2^ssy rows
    let mut idx: Vec<usize> = idx.to_vec();
    if let Ok(rgb) = &whole {
        if rgb.data().len() == px.len() && w * h > 4096 {
            let bh = 1usize << c.ssy;
            let mut pieces: Vec<[f32; 3]> = Vec::with_capacity(px.len());
            let mut ok = true;
            for r in (0..h).step_by(bh) {
                let rows = &px[r * w..(r + bh).min(h) * w];
                match crate::util::guard(|| yuv444::<T>(rows, w, rows.len() / w, c).ok().and_then(|y| Rgb::try_from(&y).ok())) {
                    Ok(Some(p)) if p.data().len() == rows.len() => pieces.extend_from_slice(p.data()),
                    _ => {
                        ok = false;
                        break;
                    }
                }
            }
            if ok {
                idx.extend(crate::util::diff_positions(rgb.data(), &pieces, 48));
                idx.sort_unstable();
                idx.dedup();
            }
        }
    }
    let sel: Vec<[u16; 3]> = idx.iter().map(|&i| eff(i)).collect();
    let mut s = String::new();
    let _ = write!(s, "\"ev\":\"dec\",\"probe\":1,{extra}\"cfg\":{},\"st\":{st},\"w\":{w},\"h\":{h},\"px\":", c.json());
    list(&mut s, &sel, |o, p| {
        let _ = write!(o, "[{},{},{}]", p[0], p[1], p[2]);
    });
    match whole {
        Ok(rgb) if rgb.data().len() == px.len() => {
            let out: Vec<[f32; 3]> = idx.iter().map(|&i| rgb.data()[i]).collect();
            let _ = write!(s, ",\"res\":\"ok\",\"wo\":{},\"ho\":{},\"tco\":{},\"cpo\":{},\"out\":", rgb.width(), rgb.height(), rgb.transfer() as u8, rgb.primaries() as u8);
            list(&mut s, &out, px_fx);
        }
        Ok(_) => s.push_str(",\"res\":\"shape\""),
        Err(e) => {
            let _ = write!(s, ",\"res\":\"{e}\"");
        }
    }
    s
}

// ---------------------------------------------------------------------------------------------
// C02

fn kr_kb(mc: u8) -> (f64, f64) {
    // used ONLY to aim inputs at rounding boundaries (never to judge): H.273 table
    match mc {
        1 => (0.2126, 0.0722),
        4 => (0.30, 0.11),
        5 | 6 => (0.299, 0.114),
        7 => (0.212, 0.087),
        9 => (0.2627, 0.0593),
        _ => (0.25, 0.25),
    }
}

fn encode_inputs(c: &Cfg, o: &Opts, rng: &mut Rng) -> Vec<[f32; 3]> {
    let mut px: Vec<[f32; 3]> = Vec::new();
    // cube corners, edges midpoints, greys
    let lv = [0.0f32, 0.5, 1.0];
    for r in lv {
        for g in lv {
            for b in lv {
                px.push([r, g, b]);
            }
        }
    }
    // lattice over [-0.5, 1.5]^3
    let m = if o.thorough { 17 } else { 9 };
    for i in 0..m {
        for j in 0..m {
            for k in 0..m {
                let f = |t: usize| -0.5 + 2.0 * (t as f32) / ((m - 1) as f32);
                px.push([f(i), f(j), f(k)]);
            }
        }
    }
    let nr = if o.thorough { 20000 } else { 700 };
    for _ in 0..nr {
        px.push([rng.f32_in(-0.5, 1.5), rng.f32_in(-0.5, 1.5), rng.f32_in(-0.5, 1.5)]);
    }
    for _ in 0..nr {
        px.push([rng.f32_in(0.0, 1.0), rng.f32_in(0.0, 1.0), rng.f32_in(0.0, 1.0)]);
    }
    // aim at rounding boundaries: grey g with luma ideal = code + 1/2; single-channel pixels whose
    // chroma ideal = code + 1/2 (pre-images along one axis; +-1 ulp neighbours)
    let n = c.n;
    let k = f64::from(1u32 << (n - 8));
    let maxc = f64::from((1u32 << n) - 1);
    let (ys, yo, cs, co) = if c.full { (maxc, 0.0, maxc, f64::from(1u32 << (n - 1))) } else { (219.0 * k, 16.0 * k, 224.0 * k, 128.0 * k) };
    let (kr, kb) = kr_kb(c.mc);
    let nb = if o.thorough { 2000 } else { 96 };
    for _ in 0..nb {
        let code = rng.below((1u64 << n) - 1) as f64;
        let g = ((code + 0.5 - yo) / ys) as f32;
        for d in [-1i32, 0, 1] {
            let gg = f32::from_bits((g.to_bits() as i32 + d) as u32);
            if gg.is_finite() && (-0.5..=1.5).contains(&gg) {
                px.push([gg, gg, gg]);
            }
        }
        // blue only: Y' = kb*B, Cb = (B - kb B) / (2(1-kb)) = B/2   -> code = cs*B/2 + co
        let b = (2.0 * (code + 0.5 - co) / cs) as f32;
        // red only: Cr = R/2
        for d in [-1i32, 0, 1] {
            let bb = f32::from_bits((b.to_bits() as i32 + d) as u32);
            if bb.is_finite() && (-0.5..=1.5).contains(&bb) {
                px.push([0.0, 0.0, bb]);
                px.push([bb, 0.0, 0.0]);
                // luma boundary on a saturated colour: Y' = kr*R  -> R = (code+.5-yo)/(ys*kr)
                let r = ((code + 0.5 - yo) / (ys * kr)) as f32;
                if r.is_finite() && (-0.5..=1.5).contains(&r) {
                    px.push([r, 0.0, 0.0]);
                }
                let bl = ((code + 0.5 - yo) / (ys * kb)) as f32;
                if bl.is_finite() && (-0.5..=1.5).contains(&bl) {
                    px.push([0.0, 0.0, bl]);
                }
            }
        }
    }
    // exact chroma extremes (the -0.5 special case of full range): B=1,R=G=0 gives Cb = +0.5; yellow gives -0.5
    for p in [[1.0, 1.0, 0.0], [0.0, 0.0, 1.0], [0.0, 1.0, 1.0], [1.0, 0.0, 0.0], [1.0, 0.0, 1.0], [0.0, 1.0, 0.0]] {
        px.push(p);
    }
    px
}

fn emit_enc<T: Pixel>(sh: &mut Shards, c: &Cfg, st: u8, px: &[[f32; 3]], w: usize, h: usize, ev: &str, src_tc: u8, src_cp: u8) {
    let rgb = Rgb::new(px.to_vec(), w, h, tc(src_tc), cp(src_cp)).expect("rgb ctor");
    let mut s = String::with_capacity(64 + px.len() * 120);
    let _ = write!(s, "\"ev\":\"{ev}\",\"cfg\":{},\"st\":{st},\"w\":{w},\"h\":{h},\"rgb\":", c.json());
    list(&mut s, px, px_fx);
    match crate::util::guard(|| Yuv::<T>::try_from((&rgb, c.yuv_config()))).map_err(|p| p.to_string()).and_then(|r| r.map_err(|e| crate::frames::err_name_conv(e).to_string())) {
        Ok(yuv) => {
            let _ = write!(s, ",\"res\":\"ok\",\"wo\":{},\"ho\":{},\"cfgo\":{},\"out\":[", yuv.width(), yuv.height(), cfg_json_of(&yuv.config()));
            for p in 0..3 {
                if p > 0 {
                    s.push(',');
                }
                list(&mut s, &plane_samples(&yuv, p), |o, v| {
                    let _ = write!(o, "{v}");
                });
            }
            s.push(']');
        }
        Err(e) => {
            let _ = write!(s, ",\"res\":\"{e}\"");
        }
    }
    sh.emit(&s);
}

pub fn gen_c02(sh: &mut Shards, o: &Opts) -> serde_json::Value {
    let mut evals = 0u64;
    let mut cfgs = 0u64;
    for (ci, (c, st)) in all_matrix_cfgs().into_iter().enumerate() {
        let mut rng = Rng::new(o.seed, 0x0202_0000 + ci as u64);
        let c = Cfg { tc: [1, 13, 16, 8][ci % 4], cp: [1, 9, 5, 12][ci % 4], ..c };
        let px = encode_inputs(&c, o, &mut rng);
        evals += px.len() as u64;
        cfgs += 1;
        for (k, (at, w, h)) in cut_images(px.len(), ci + 3).into_iter().enumerate() {
            let img = &px[at..at + w * h];
            // the target config's labels and the SOURCE image's own labels are drawn independently: the matrix stage must ignore
            // both pairs (a Linear-tagged source with a non-Linear target config, and so on)
            let c = Cfg { tc: crate::util::TC_LBL[rng.below(18) as usize], cp: crate::util::CP_LBL[rng.below(13) as usize], ..c };
            let (t, p) = (crate::util::TC_LBL[rng.below(18) as usize], crate::util::CP_LBL[rng.below(13) as usize]);
            if st == 8 {
                emit_enc::<u8>(sh, &c, st, img, w, h, "enc", t, p);
            } else {
                emit_enc::<u16>(sh, &c, st, img, w, h, "enc", t, p);
            }
        }
    }
    // call-order histories (see gen_c01): an encode with config A, then an encode with a standard config B; B is judged
    {
        let mut rng = Rng::new(o.seed, 0x0202_c000);
        for &ma in &crate::util::MC_ALL {
            for &pa in &[1u8, 5, 9, 22, 6, 10] {
                for &mb in &MC_STD {
                    for full in [false, true] {
                        let n = if (ma + mb) % 2 == 0 { 8u8 } else { 10 };
                        let a = Cfg { mc: ma, tc: 1, cp: pa, full: !full, n, ssx: 0, ssy: 0 };
                        let tb = [13u8, 16, 1, 8][(ma as usize + mb as usize) % 4];
                        let pb = if pa == 22 { 6 } else if pa == 6 { 22 } else { [1u8, 9, 5, 6][(ma as usize + mb as usize) % 4] };
                        let b = Cfg { mc: mb, tc: tb, cp: pb, full, n, ssx: 0, ssy: 0 };
                        let px: Vec<[f32; 3]> = (0..7).map(|_| [rng.f32_in(-0.5, 1.5), rng.f32_in(-0.5, 1.5), rng.f32_in(-0.5, 1.5)]).collect();
                        let rgb = Rgb::new(px.clone(), 7, 1, tc(1), cp(pa)).expect("rgb ctor");
                        let _ = crate::util::guard(|| Yuv::<u16>::try_from((&rgb, a.yuv_config())).map(|y| y.width()));
                        emit_enc::<u16>(sh, &b, 16, &px, 7, 1, "enc", tb, pb);
                        evals += 7;
                    }
                }
            }
        }
    }
    for (k, (c, st)) in all_matrix_cfgs().into_iter().enumerate().filter(|(k, _)| k % 23 == 5) {
        let mut rng = Rng::new(o.seed, 0x0202_b160 + k as u64);
        // every other one of these frames has more than 2^20 pixels (full HD / single row / single column / 2049x1025)
        let (w, h) = if (k / 23) % 2 == 1 && !o.mini { crate::util::huge(k / 23 / 2 + o.seed as usize) } else { crate::util::big(k / 23) };
        let px: Vec<[f32; 3]> = (0..w * h).map(|_| [rng.f32_in(-0.5, 1.5), rng.f32_in(-0.5, 1.5), rng.f32_in(-0.5, 1.5)]).collect();
        let idx = crate::util::probe_indices(w * h, w, &mut rng);
        let s = if st == 8 { enc_probe_body::<u8>("", &c, st, &px, w, h, &idx) } else { enc_probe_body::<u16>("", &c, st, &px, w, h, &idx) };
        sh.emit(&s);
        evals += (w * h) as u64;
    }
    // schedules: 8 threads encoding different configurations at once in a fresh process
    if !o.mini {
        if let Ok(o2) = std::process::Command::new(std::env::current_exe().expect("exe")).args(["concworker", "enc", "--seed", &o.seed.to_string()]).stderr(std::process::Stdio::null()).output() {
            if o2.status.success() {
                for line in String::from_utf8_lossy(&o2.stdout).lines() {
                    if line.starts_with("\"ev\"") {
                        sh.emit(line);
                    }
                }
            } else {
                sh.emit(&format!("\"ev\":\"enc\",\"probe\":1,\"conc\":[-1,0],\"cfg\":{},\"st\":8,\"w\":1,\"h\":1,\"rgb\":[],\"res\":\"abort:{}\"", all_matrix_cfgs()[0].0.json(), o2.status.to_string().replace('"', "'")));
            }
        }
    }
    serde_json::json!({"pixels": evals, "configs": cfgs})
}

/// a large 4:4:4 encode: converted whole, logged at the probed positions plus wherever the whole-frame codes differ from
/// the codes of the same pixels encoded in 509-pixel strips (untrusted screen, selects positions only)
fn enc_probe_body<T: Pixel>(extra: &str, c: &Cfg, st: u8, px: &[[f32; 3]], w: usize, h: usize, idx: &[usize]) -> String {
    let enc = |p: &[[f32; 3]], pw: usize, ph: usize| -> Result<(usize, usize, String, [Vec<u16>; 3]), String> {
        crate::util::guard_s(|| {
            let rgb = Rgb::new(p.to_vec(), pw, ph, tc(13), cp(1)).map_err(|_| "ctor".to_string())?;
            let y = Yuv::<T>::try_from((&rgb, c.yuv_config())).map_err(|e| crate::frames::err_name_conv(e).to_string())?;
            Ok((y.width(), y.height(), cfg_json_of(&y.config()), [plane_samples(&y, 0), plane_samples(&y, 1), plane_samples(&y, 2)]))
        })
    };
    let whole = enc(px, w, h);
    let mut idx: Vec<usize> = idx.to_vec();
    if let Ok((_, _, _, planes)) = &whole {
        if w * h > 4096 && planes.iter().all(|p| p.len() == w * h) {
            let mut diff: Vec<usize> = Vec::new();
            let mut at = 0usize;
            for chunk in px.chunks(509) {
                if let Ok((_, _, _, pp)) = enc(chunk, chunk.len(), 1) {
                    for i in 0..chunk.len() {
                        if (0..3).any(|p| pp[p].get(i) != planes[p].get(at + i)) {
                            diff.push(at + i);
                        }
                    }
                }
                at += chunk.len();
            }
            if diff.len() > 48 {
                let step = diff.len() / 32;
                let mut d2: Vec<usize> = diff[..8].to_vec();
                d2.extend_from_slice(&diff[diff.len() - 8..]);
                d2.extend(diff.iter().skip(8).step_by(step.max(1)).take(32));
                diff = d2;
            }
            idx.extend(diff);
            idx.sort_unstable();
            idx.dedup();
        }
    }
    let sel: Vec<[f32; 3]> = idx.iter().map(|&i| px[i]).collect();
    let mut s = String::new();
    let _ = write!(s, "\"ev\":\"enc\",\"probe\":1,{extra}\"cfg\":{},\"st\":{st},\"w\":{w},\"h\":{h},\"rgb\":", c.json());
    list(&mut s, &sel, px_fx);
    match whole {
        Ok((wo, ho, cfgo, planes)) if planes.iter().all(|p| p.len() == w * h) => {
            let _ = write!(s, ",\"res\":\"ok\",\"wo\":{wo},\"ho\":{ho},\"cfgo\":{cfgo},\"out\":[");
            for p in 0..3 {
                if p > 0 {
                    s.push(',');
                }
                let v: Vec<u16> = idx.iter().map(|&i| planes[p][i]).collect();
                list(&mut s, &v, |o, x| {
                    let _ = write!(o, "{x}");
                });
            }
            s.push(']');
        }
        Ok(_) => s.push_str(",\"res\":\"shape\""),
        Err(e) => {
            let _ = write!(s, ",\"res\":\"{e}\"");
        }
    }
    s
}
/// SCHEDULES: 8 threads encode with different configurations at the same moment in a fresh process
pub fn conc_worker_enc(o: &Opts) {
    use std::sync::{Arc, Barrier};
    let nthreads = 8usize;
    let barrier = Arc::new(Barrier::new(nthreads));
    let seed = o.seed;
    let cfgs = all_matrix_cfgs();
    let handles: Vec<_> = (0..nthreads)
        .map(|j| {
            let b = barrier.clone();
            let (c, st) = cfgs[(j * 41 + (seed as usize) * 3 + 7) % cfgs.len()];
            std::thread::spawn(move || {
                let mut rng = Rng::new(seed, 0x0202_c0c0 + j as u64);
                let (w, h) = [(250usize, 164usize), (322, 128)][j % 2];
                let px: Vec<[f32; 3]> = (0..w * h).map(|_| [rng.f32_in(-0.25, 1.25), rng.f32_in(-0.25, 1.25), rng.f32_in(-0.25, 1.25)]).collect();
                let mut idx: Vec<usize> = (0..6).chain(w * h - 6..w * h).collect();
                for _ in 0..16 {
                    idx.push(rng.below((w * h) as u64) as usize);
                }
                idx.sort_unstable();
                idx.dedup();
                let mut out = Vec::new();
                b.wait();
                for round in 0..2 {
                    let extra = format!("\"conc\":[{j},{round}],");
                    out.push(if st == 8 { enc_probe_body::<u8>(&extra, &c, st, &px, w, h, &idx) } else { enc_probe_body::<u16>(&extra, &c, st, &px, w, h, &idx) });
                }
                out
            })
        })
        .collect();
    let stdout = std::io::stdout();
    let mut lock = stdout.lock();
    use std::io::Write as _;
    for hd in handles {
        if let Ok(lines) = hd.join() {
            for s in lines {
                let _ = writeln!(lock, "{s}");
            }
        }
    }
}

// ---------------------------------------------------------------------------------------------
// C08: decode then encode with the same config; lossless projection = set of distinct (plane,in,out)

fn roundtrip_collect<T: Pixel>(c: &Cfg, px: &[[u16; 3]], tab: &mut BTreeSet<(u8, u16, u16)>, bad: &mut Vec<String>) {
    // a 2-D image (rows of 251 pixels; the tail is dropped into a second, single-row call by the caller's batching)
    let (w, h) = if px.len() >= 502 { (251usize, px.len() / 251) } else { (px.len(), 1) };
    if w * h < px.len() {
        roundtrip_collect::<T>(c, &px[w * h..], tab, bad);
    }
    let px = &px[..w * h];
    // plane layouts rotate with the batch: Plane::new tight, tightly packed luma (Plane::from_slice) with padded chroma,
    // differently padded planes
    let built = crate::util::guard(|| match (px.len() + usize::from(px[0][1])) % 3 {
        0 => yuv444::<T>(px, w, h, c),
        1 => Yuv::new(crate::frames::frame_packed_luma::<T>(px, w, h, 0, 0, [(0, 0), (0, 0), (16, 0)]), c.yuv_config()),
        _ => crate::frames::yuv444_padded::<T>(px, w, h, c, [(3, 0), (0, 2), (33, 1)]),
    });
    let yuv: Yuv<T> = match built {
        Ok(Ok(y)) => y,
        Ok(Err(e)) => {
            bad.push(format!("ctor:{}", crate::frames::err_name_yuv(e)));
            return;
        }
        Err(p) => {
            bad.push(format!("ctor:{p}"));
            return;
        }
    };
    let rgb = match crate::util::guard(|| Rgb::try_from(&yuv)) {
        Ok(Ok(r)) => r,
        Ok(Err(e)) => {
            bad.push(format!("dec:{}", crate::frames::err_name_conv(e)));
            return;
        }
        Err(p) => {
            bad.push(format!("dec:{p}"));
            return;
        }
    };
    let back = match crate::util::guard(|| Yuv::<T>::try_from((&rgb, yuv.config()))) {
        Ok(Ok(r)) => r,
        Ok(Err(e)) => {
            bad.push(format!("enc:{}", crate::frames::err_name_conv(e)));
            return;
        }
        Err(p) => {
            bad.push(format!("enc:{p}"));
            return;
        }
    };
    if back.width() != w || back.height() != h || back.config() != yuv.config() {
        bad.push("shape".to_string());
        return;
    }
    for p in 0..3 {
        let out = plane_samples(&back, p);
        for (i, o) in out.iter().enumerate() {
            tab.insert((p as u8, px[i][p], *o));
        }
    }
}

pub fn gen_c08(sh: &mut Shards, o: &Opts) -> serde_json::Value {
    let mut triples = 0u64;
    let mut rows = 0u64;
    for (ci, (c, st)) in all_matrix_cfgs().into_iter().enumerate() {
        let mut rng = Rng::new(o.seed, 0x0808_0000 + ci as u64);
        let n = c.n;
        let total = 1u32 << n;
        let mut tab = BTreeSet::new();
        let mut bad = Vec::new();
        let mut batch: Vec<[u16; 3]> = Vec::with_capacity(301_200);
        let mut label_k = ci * 3;
        let mut flush = |batch: &mut Vec<[u16; 3]>, tab: &mut BTreeSet<(u8, u16, u16)>, bad: &mut Vec<String>| {
            if batch.is_empty() {
                return;
            }
            // the labels the matrix stage does not use rotate from batch to batch over every supported transfer / primaries
            let cc = Cfg { tc: crate::util::TC_LBL[label_k % 18], cp: crate::util::CP_LBL[label_k % 13], ..c };
            label_k += 1;
            if st == 8 {
                roundtrip_collect::<u8>(&cc, batch, tab, bad);
            } else {
                roundtrip_collect::<u16>(&cc, batch, tab, bad);
            }
            batch.clear();
        };
        let mut push = |p: [u16; 3], batch: &mut Vec<[u16; 3]>, tab: &mut BTreeSet<(u8, u16, u16)>, bad: &mut Vec<String>| {
            batch.push(p);
            if batch.len() >= 301_200 {
                flush(batch, tab, bad);
            }
        };
        if n == 8 {
            // all 2^24 triples in thorough; every 3rd code per axis (random phase per axis) in quick
            let (step, ph) = if o.thorough { (1u32, [0u32; 3]) } else if o.mini { (17u32, [rng.below(17) as u32, rng.below(17) as u32, rng.below(17) as u32]) } else { (3u32, [rng.below(3) as u32, rng.below(3) as u32, rng.below(3) as u32]) };
            let mut y = ph[0];
            while y < 256 {
                let mut u = ph[1];
                while u < 256 {
                    let mut v = ph[2];
                    while v < 256 {
                        push([y as u16, u as u16, v as u16], &mut batch, &mut tab, &mut bad);
                        triples += 1;
                        v += step;
                    }
                    u += step;
                }
                y += step;
            }
            // plus full per-plane sweeps so that every code of every plane is present even in quick
        }
        let mid = (total / 2) as u16;
        let maxc = (total - 1) as u16;
        let anchors_other: [[u16; 2]; 5] = [[mid, mid], [0, 0], [maxc, maxc], [0, maxc], [maxc, 0]];
        for a in anchors_other.iter().take(if o.mini { 1 } else { 5 }) {
            for s in 0..total {
                let s = s as u16;
                push([s, a[0], a[1]], &mut batch, &mut tab, &mut bad);
                push([a[0], s, a[1]], &mut batch, &mut tab, &mut bad);
                push([a[0], a[1], s], &mut batch, &mut tab, &mut bad);
                triples += 3;
            }
        }
        let nr: u64 = if o.thorough { 4_000_000 } else if o.mini { 10_000 } else { 200_000 };
        for _ in 0..nr {
            push([rng.below(u64::from(total)) as u16, rng.below(u64::from(total)) as u16, rng.below(u64::from(total)) as u16], &mut batch, &mut tab, &mut bad);
            triples += 1;
        }
        flush(&mut batch, &mut tab, &mut bad);
        // every supported transfer label once more on the anchor cube (foot-room, head-room, nominal limits, extremes)
        let (la, ca) = (anchors(n, false), anchors(n, true));
        for _ in 0..18 {
            for &y in &la {
                for &u in &ca {
                    for &v in &ca {
                        batch.push([y, u, v]);
                    }
                }
            }
            triples += batch.len() as u64;
            flush(&mut batch, &mut tab, &mut bad);
        }
        // emit the table in chunks
        let all: Vec<(u8, u16, u16)> = tab.into_iter().collect();
        rows += all.len() as u64;
        for chunk in all.chunks(512) {
            let mut s = String::new();
            let _ = write!(s, "\"ev\":\"rt\",\"cfg\":{},\"st\":{st},\"tab\":", c.json());
            list(&mut s, chunk, |o, r| {
                let _ = write!(o, "[{},{},{}]", r.0 + 1, r.1, r.2);
            });
            sh.emit(&s);
        }
        if !bad.is_empty() {
            bad.sort();
            bad.dedup();
            sh.emit(&format!("\"ev\":\"rt_bad\",\"cfg\":{},\"st\":{st},\"what\":{:?}", c.json(), bad));
        }
    }
    serde_json::json!({"triples": triples, "rows": rows})
}

// ---------------------------------------------------------------------------------------------
// C16 (YUV part): grey codes -> RGB
pub fn gen_c16_yuv(sh: &mut Shards, o: &Opts) -> u64 {
    let mut evals = 0;
    for (ci, (c, st)) in all_matrix_cfgs().into_iter().enumerate() {
        let mut rng = Rng::new(o.seed, 0x1616_0000 + ci as u64);
        let n = c.n;
        let mid = (1u32 << (n - 1)) as u16;
        let lim = if o.thorough { 1 << 16 } else { 768 };
        let mut ys = sweep(n, lim, &mut rng);
        let k = 1u32 << (n - 8);
        for v in [0u32, 16 * k, 235 * k, (1u32 << n) - 1, 16 * k - 1, 235 * k + 1] {
            ys.push(v as u16);
        }
        let px: Vec<[u16; 3]> = ys.iter().map(|&y| [y, mid, mid]).collect();
        evals += px.len() as u64;
        for (j, (at, w, h)) in cut_images(px.len(), ci + 5).into_iter().enumerate() {
            let img = &px[at..at + w * h];
            // the labels the matrix stage ignores rotate from image to image
            let c = Cfg { tc: crate::util::TC_LBL[(ci + j) % 18], cp: crate::util::CP_LBL[(ci + 3 * j) % 13], ..c };
            if st == 8 {
                emit_dec::<u8>(sh, &c, st, img, w, h, "grey");
            } else {
                emit_dec::<u16>(sh, &c, st, img, w, h, "grey");
            }
        }
    }
    // neutral samples NEXT TO coloured ones, in every subsampling: chroma samples alternate neutral / random in a
    // checkerboard, luma is random with the nominal black and white codes mixed in; only the neutral pixels are judged
    for (ci, (c, st)) in all_matrix_cfgs().into_iter().enumerate() {
        if !(o.thorough || ci % 3 == (o.seed as usize) % 3) {
            continue;
        }
        let mut rng = Rng::new(o.seed, 0x1616_3300 + ci as u64);
        let n = c.n;
        let mid = 1u16 << (n - 1);
        let maxc = (1u64 << n) - 1;
        let kq = 1u32 << (n - 8);
        let (blk, wht) = if c.full { (0u16, maxc as u16) } else { ((16 * kq) as u16, (235 * kq) as u16) };
        for (li, &(sx, sy)) in [(0u8, 0u8), (1, 1), (0, 1), (1, 0), (2, 0), (2, 2)].iter().enumerate() {
            let (w, h) = (16usize, 8usize);
            let c = Cfg { ssx: sx, ssy: sy, tc: crate::util::TC_LBL[(ci + li) % 18], cp: crate::util::CP_LBL[(ci + 2 * li) % 13], ..c };
            let px: Vec<[u16; 3]> = (0..w * h)
                .map(|i| {
                    let (x, y) = (i % w, i / w);
                    let neutral = ((x >> sx) + (y >> sy)) % 2 == 0;
                    let luma = match rng.below(6) {
                        0 => blk,
                        1 => wht,
                        _ => rng.below(maxc + 1) as u16,
                    };
                    if neutral {
                        [luma, mid, mid]
                    } else {
                        [luma, rng.below(maxc + 1) as u16, rng.below(maxc + 1) as u16]
                    }
                })
                .collect();
            let eff: Vec<[u16; 3]> = (0..w * h)
                .map(|i| {
                    let (x, y) = (i % w, i / w);
                    let b = ((y >> sy) << sy) * w + ((x >> sx) << sx);
                    [px[i][0], px[b][1], px[b][2]]
                })
                .collect();
            let mut s = String::new();
            let _ = write!(s, "\"ev\":\"grey\",\"mix\":1,\"cfg\":{},\"st\":{st},\"w\":{w},\"h\":{h},\"px\":", c.json());
            list(&mut s, &eff, |o2, p| {
                let _ = write!(o2, "[{},{},{}]", p[0], p[1], p[2]);
            });
            let pads = [[(0usize, 0usize); 3], [(0, 0), (9, 1), (0, 0)], [(2, 0), (0, 0), (17, 2)]][(ci + li) % 3];
            let res: Result<Vec<[f32; 3]>, String> = if st == 8 {
                crate::util::guard_s(|| {
                    let y = crate::frames::yuv444_padded::<u8>(&px, w, h, &c, pads).map_err(|e| format!("ctor:{}", crate::frames::err_name_yuv(e)))?;
                    Rgb::try_from(&y).map(|r| r.data().to_vec()).map_err(|e| crate::frames::err_name_conv(e).to_string())
                })
            } else {
                crate::util::guard_s(|| {
                    let y = crate::frames::yuv444_padded::<u16>(&px, w, h, &c, pads).map_err(|e| format!("ctor:{}", crate::frames::err_name_yuv(e)))?;
                    Rgb::try_from(&y).map(|r| r.data().to_vec()).map_err(|e| crate::frames::err_name_conv(e).to_string())
                })
            };
            match res {
                Ok(out) => {
                    s.push_str(",\"res\":\"ok\",\"out\":");
                    list(&mut s, &out, px_fx);
                    s.push_str(",\"ob\":");
                    list(&mut s, &out, crate::util::px_bits);
                }
                Err(e) => {
                    let _ = write!(s, ",\"res\":\"{e}\"");
                }
            }
            sh.emit(&s);
            evals += (w * h) as u64;
        }
    }
    // large grey frames (size-dependent decode paths), probed; every luma code appears
    for (k, &n) in [8u8, 10, 13, 16].iter().enumerate() {
        for full in [false, true] {
            let c = Cfg { mc: MC_STD[(k * 2 + usize::from(full)) % 7], tc: 1, cp: 1, full, n, ssx: 0, ssy: 0 };
            let mut rng = Rng::new(o.seed, 0x1616_b160 + k as u64);
            let (w, h) = (701usize, 523usize);
            let mid = (1u32 << (n - 1)) as u16;
            let total = 1usize << n;
            let px: Vec<[u16; 3]> = (0..w * h).map(|i| [(i % total) as u16, mid, mid]).collect();
            let idx = crate::util::probe_indices(w * h, w, &mut rng);
            let sel: Vec<[u16; 3]> = idx.iter().map(|&i| px[i]).collect();
            let mut s = String::new();
            let _ = write!(s, "\"ev\":\"grey\",\"probe\":1,\"cfg\":{},\"st\":16,\"w\":{w},\"h\":{h},\"px\":", c.json());
            list(&mut s, &sel, |o2, p| {
                let _ = write!(o2, "[{},{},{}]", p[0], p[1], p[2]);
            });
            let yuv = match crate::util::guard(|| yuv444::<u16>(&px, w, h, &c)) {
                Ok(Ok(y)) => y,
                other => {
                    let _ = write!(s, ",\"res\":\"ctor:{}\"", other.map(|r| r.map(|_| "").unwrap_or_else(crate::frames::err_name_yuv)).unwrap_or("panic"));
                    sh.emit(&s);
                    continue;
                }
            };
            match crate::util::guard(|| Rgb::try_from(&yuv)) {
                Ok(Ok(rgb)) if rgb.data().len() == px.len() => {
                    let out: Vec<[f32; 3]> = idx.iter().map(|&i| rgb.data()[i]).collect();
                    s.push_str(",\"res\":\"ok\",\"out\":");
                    list(&mut s, &out, px_fx);
                    s.push_str(",\"ob\":");
                    list(&mut s, &out, crate::util::px_bits);
                }
                Ok(Err(e)) => {
                    let _ = write!(s, ",\"res\":\"{}\"", crate::frames::err_name_conv(e));
                }
                _ => s.push_str(",\"res\":\"panic\""),
            }
            sh.emit(&s);
            evals += idx.len() as u64;
        }
    }
    // "every matrix": the non-standard matrix codes that the library decodes with primaries-derived
    // constants (whatever it chooses to do for them, a grey must stay grey when the call succeeds)
    let mut k = 0usize;
    for &m in &[0u8, 10, 11, 12, 13, 14, 3] {
        for &p in &[1u8, 9, 5, 4, 6, 8, 11, 22] {
            for full in [false, true] {
                for &n in &[8u8, 10, 16] {
                    k += 1;
                    let c = Cfg { mc: m, tc: 1, cp: p, full, n, ssx: 0, ssy: 0 };
                    let mut rng = Rng::new(o.seed, 0x1616_8000 + k as u64);
                    let mid = (1u32 << (n - 1)) as u16;
                    let kk = 1u32 << (n - 8);
                    let mut ys = sweep(n, if o.thorough { 1024 } else { 48 }, &mut rng);
                    for v in [0u32, 16 * kk, 235 * kk, (1u32 << n) - 1] {
                        ys.push(v as u16);
                    }
                    let px: Vec<[u16; 3]> = ys.iter().map(|&y| [y, mid, mid]).collect();
                    evals += px.len() as u64;
                    for (at, w, h) in cut_images(px.len(), k) {
                        emit_dec::<u16>(sh, &c, 16, &px[at..at + w * h], w, h, "grey");
                    }
                }
            }
        }
    }
    evals
}

#[allow(dead_code)]
pub fn fx_list(out: &mut String, v: &[f32]) {
    list(out, v, |o, x| fx32(o, *x));
}
