//! Traces for yuvxyb-math: C19 (3x3 algebra, f32 and f64) and C18 (cbrtf / powf / expf contracts,
//! totality observed through the exp2 hook).

use std::fmt::Write as _;
use std::panic::{catch_unwind, AssertUnwindSafe};

use yuvxyb_math::verif_hooks as hooks;
use yuvxyb_math::{cbrtf, expf, powf, ColVector, Matrix, RowVector};

use crate::util::{bits32, fx32, fx64, list, me32, Rng, Shards};
use crate::Opts;

// ------------------------------------------------------------------------------------------
// C19
type M3 = [[f64; 3]; 3];

fn m_f32(a: &M3) -> Matrix<f32> {
    let r = |i: usize| RowVector::new(a[i][0] as f32, a[i][1] as f32, a[i][2] as f32);
    Matrix::new(r(0), r(1), r(2))
}
fn m_f64(a: &M3) -> Matrix<f64> {
    let r = |i: usize| RowVector::new(a[i][0], a[i][1], a[i][2]);
    Matrix::new(r(0), r(1), r(2))
}

fn j_m32(s: &mut String, m: [[f32; 3]; 3]) {
    list(s, &m, |o, r| list(o, r, |o2, x| fx32(o2, *x)));
}
fn j_m64(s: &mut String, m: [[f64; 3]; 3]) {
    list(s, &m, |o, r| list(o, r, |o2, x| fx64(o2, *x)));
}
fn j_v32(s: &mut String, v: [f32; 3]) {
    list(s, &v, |o, x| fx32(o, *x));
}
fn j_v64(s: &mut String, v: [f64; 3]) {
    list(s, &v, |o, x| fx64(o, *x));
}
fn bits_m32(s: &mut String, m: [[f32; 3]; 3]) {
    list(s, &m, |o, r| list(o, r, |o2, x| bits32(o2, *x)));
}
fn bits_m64(s: &mut String, m: [[f64; 3]; 3]) {
    list(s, &m, |o, r| {
        list(o, r, |o2, x| {
            let b = x.to_bits();
            let _ = write!(o2, "[{},{},{},{}]", b >> 48, (b >> 32) & 0xffff, (b >> 16) & 0xffff, b & 0xffff);
        })
    });
}

fn mat_inputs(o: &Opts, rng: &mut Rng) -> Vec<(M3, M3, [f64; 3], [f64; 3], f64)> {
    let mut v: Vec<M3> = Vec::new();
    let ident: M3 = [[1.0, 0.0, 0.0], [0.0, 1.0, 0.0], [0.0, 0.0, 1.0]];
    v.push(ident);
    // permutations (both parities) and reflections
    let perms = [[0, 1, 2], [0, 2, 1], [1, 0, 2], [1, 2, 0], [2, 0, 1], [2, 1, 0]];
    for p in perms {
        for sgn in [1.0, -1.0] {
            let mut m = [[0.0; 3]; 3];
            for i in 0..3 {
                m[i][p[i]] = if i == 1 { sgn } else { 1.0 };
            }
            v.push(m);
        }
    }
    // identity with ONE other entry changed (elementary shears / scalings): every position, two values
    for i in 0..3 {
        for j in 0..3 {
            for cval in [0.5f64, -1.5] {
                let mut m = ident;
                m[i][j] = if i == j { 1.0 + cval } else { cval };
                if i == j && (m[i][j]).abs() < 0.5 {
                    m[i][j] = 1.5;
                }
                v.push(m);
            }
        }
    }
    // diagonal
    for _ in 0..8 {
        let mut m = [[0.0; 3]; 3];
        for (i, row) in m.iter_mut().enumerate() {
            row[i] = rng.range(-2.0, 2.0);
        }
        v.push(m);
    }
    // colour matrices (from the standards; operands only)
    for (kr, kb) in [(0.2126, 0.0722), (0.299, 0.114), (0.3, 0.11), (0.212, 0.087), (0.2627, 0.0593)] {
        let kg = 1.0 - kr - kb;
        v.push([[kr, kg, kb], [-kr / (2.0 * (1.0 - kb)), -kg / (2.0 * (1.0 - kb)), 0.5], [0.5, -kg / (2.0 * (1.0 - kr)), -kb / (2.0 * (1.0 - kr))]]);
    }
    v.push([[0.25, 0.5, 0.25], [-0.25, 0.5, -0.25], [0.5, 0.0, -0.5]]); // YCgCo (det < 0)
    v.push([[0.8951, 0.2664, -0.1614], [-0.7502, 1.7135, 0.0367], [0.0389, -0.0685, 1.0296]]); // Bradford
    v.push([[0.30, 0.622, 0.078], [0.23, 0.692, 0.078], [0.243_422_689_245_478_19, 0.204_767_444_244_968_21, 0.551_809_866_509_553_6]]);
    // exact TIES between magnitudes (pivot choices, argmax over a column, sign decisions): the sum/difference matrix, 45
    // degree rotations about each axis, Hadamard-like sign matrices, a tie above a tiny third entry, and matrices whose
    // entries all come from the grid {-2, -1, -0.5, 0, 0.5, 1, 2} (any two entries tie in magnitude with probability 1/4)
    v.push([[1.0, 1.0, 0.0], [1.0, -1.0, 0.0], [0.0, 0.0, 1.0]]);
    let c45 = std::f64::consts::FRAC_1_SQRT_2;
    v.push([[c45, -c45, 0.0], [c45, c45, 0.0], [0.0, 0.0, 1.0]]);
    v.push([[1.0, 0.0, 0.0], [0.0, c45, -c45], [0.0, c45, c45]]);
    v.push([[c45, 0.0, c45], [0.0, 1.0, 0.0], [-c45, 0.0, c45]]);
    v.push([[1.0, 1.0, 1.0], [1.0, -1.0, 1.0], [1.0, 1.0, -1.0]]);
    v.push([[0.5, 1.0, 0.25], [-0.5, 1.0, 0.0], [1.0e-7, 0.0, 1.0]]);
    v.push([[0.0, 1.0, 1.0], [1.0, 0.0, 1.0], [1.0, 1.0, 0.0]]);
    v.push([[2.0, -2.0, 1.0], [-2.0, -2.0, 0.5], [0.0, 1.0, 2.0]]);
    {
        const GRID: [f64; 7] = [-2.0, -1.0, -0.5, 0.0, 0.5, 1.0, 2.0];
        let mut kept = 0;
        let want = if o.thorough { 3000 } else { 300 };
        while kept < want {
            let mut m = [[0.0; 3]; 3];
            for r in &mut m {
                for x in r.iter_mut() {
                    *x = GRID[rng.below(7) as usize];
                }
            }
            let det = m[0][0] * (m[1][1] * m[2][2] - m[1][2] * m[2][1]) - m[0][1] * (m[1][0] * m[2][2] - m[1][2] * m[2][0]) + m[0][2] * (m[1][0] * m[2][1] - m[1][1] * m[2][0]);
            if det.abs() >= 0.5 {
                v.push(m);
                kept += 1;
            }
        }
    }
    // near rank-deficient with |det| slightly above / below 0.5: scale a random matrix to a chosen determinant
    let n = if o.thorough { 20000 } else { 1500 };
    for i in 0..n {
        let mut m = [[0.0; 3]; 3];
        for r in &mut m {
            for x in r.iter_mut() {
                *x = rng.range(-2.0, 2.0);
            }
        }
        if i % 5 == 0 {
            // make rows 1 and 2 nearly parallel, then rescale row 3 so that |det| is just around 0.5
            let e = rng.range(0.05, 0.3);
            for k in 0..3 {
                m[1][k] = (m[0][k] * 0.9 + e * rng.range(-1.0, 1.0)).clamp(-2.0, 2.0);
            }
        }
        v.push(m);
    }
    let mut out = Vec::new();
    let nv = v.len();
    for i in 0..nv {
        // the structured matrices (the first 60) also serve as right operands of random matrices and vice versa
        let b = if i < 60 { v[nv - 1 - i] } else if i < 120 { v[i - 60] } else { v[(i * 7 + 3) % nv] };
        let mut vec = [rng.range(-2.0, 2.0), rng.range(-2.0, 2.0), rng.range(-2.0, 2.0)];
        let mut u = [rng.range(-2.0, 2.0), rng.range(-2.0, 2.0), rng.range(-2.0, 2.0)];
        let mut x = rng.range(0.25, 2.0);
        if rng.below(2) == 0 {
            x = -x;
        }
        // every third operand set: exact units, halves, zeros and twos of both signs in the VECTOR and SCALAR positions too
        // (a "multiply by one is a no-op" shortcut taken for -1 as well shows only when an operand is exactly -1)
        if i % 3 == 0 {
            const UNITS: [f64; 8] = [-2.0, -1.0, -0.5, -0.0, 0.0, 0.5, 1.0, 2.0];
            for k in 0..3 {
                if rng.below(3) != 0 {
                    vec[k] = UNITS[rng.below(8) as usize];
                }
                if rng.below(3) != 0 {
                    u[k] = UNITS[rng.below(8) as usize];
                }
            }
            if rng.below(2) == 0 {
                x = [-2.0, -1.0, -0.5, 0.5, 1.0, 2.0][rng.below(6) as usize];
            }
        }
        out.push((v[i], b, vec, u, x));
    }
    out
}

macro_rules! mat_event {
    ($s:ident, $t:ty, $mk:ident, $jm:ident, $jv:ident, $bm:ident, $fx:ident, $a:expr, $b:expr, $v:expr, $u:expr, $x:expr) => {{
        let a = $mk($a);
        let b = $mk($b);
        let v: [$t; 3] = [$v[0] as $t, $v[1] as $t, $v[2] as $t];
        let u: [$t; 3] = [$u[0] as $t, $u[1] as $t, $u[2] as $t];
        let x = $x as $t;
        $s.push_str("\"A\":");
        $jm(&mut $s, a.clone().values());
        $s.push_str(",\"B\":");
        $jm(&mut $s, b.clone().values());
        $s.push_str(",\"v\":");
        $jv(&mut $s, v);
        $s.push_str(",\"u\":");
        $jv(&mut $s, u);
        $s.push_str(",\"x\":");
        $fx(&mut $s, x);
        $s.push_str(",\"mul_vec\":");
        $jv(&mut $s, a.mul_vec(&ColVector::from(v)).values());
        $s.push_str(",\"mul_arr\":");
        $jv(&mut $s, a.mul_arr(v));
        $s.push_str(",\"mul_mat\":");
        $jm(&mut $s, a.mul_mat(b.clone()).values());
        $s.push_str(",\"tr\":");
        $jm(&mut $s, a.clone().transpose().values());
        $s.push_str(",\"Ab\":");
        $bm(&mut $s, a.clone().values());
        $s.push_str(",\"ttb\":");
        $bm(&mut $s, a.clone().transpose().transpose().values());
        let rv = RowVector::from(v);
        let ru = RowVector::from(u);
        $s.push_str(",\"cross\":");
        $jv(&mut $s, rv.cross(&ru).values());
        $s.push_str(",\"dot\":");
        $fx(&mut $s, rv.dot(&ru));
        $s.push_str(",\"vdiv\":");
        $jv(&mut $s, rv.scalar_div(x).values());
        $s.push_str(",\"cmul\":");
        $jv(&mut $s, rv.component_mul(&ru).values());
        $s.push_str(",\"mdiv\":");
        $jm(&mut $s, a.scalar_div(x).values());
        $s.push_str(",\"colt\":");
        $jv(&mut $s, ColVector::from(v).transpose().values());
        $s.push_str(",\"idl\":");
        $jm(&mut $s, Matrix::<$t>::identity().mul_mat(a.clone()).values());
        $s.push_str(",\"idr\":");
        $jm(&mut $s, a.mul_mat(Matrix::<$t>::identity()).values());
        $s.push_str(",\"idv\":");
        $jv(&mut $s, Matrix::<$t>::identity().mul_arr(v));
        match catch_unwind(AssertUnwindSafe(|| a.invert().values())) {
            Ok(inv) => {
                $s.push_str(",\"invp\":0,\"inv\":");
                $jm(&mut $s, inv);
            }
            Err(_) => $s.push_str(",\"invp\":1,\"inv\":[]"),
        }
    }};
}

pub fn gen_c19(sh: &mut Shards, o: &Opts) -> serde_json::Value {
    let mut rng = Rng::new(o.seed, 0x1919);
    let ins = mat_inputs(o, &mut rng);
    let mut n = 0u64;
    for (a, b, v, u, x) in &ins {
        // f32 instantiation (operands rounded to f32 first; the logged operands are what was used)
        let mut s = String::from("\"ev\":\"mat\",\"t\":\"f32\",");
        mat_event!(s, f32, m_f32, j_m32, j_v32, bits_m32, fx32, a, b, v, u, *x);
        sh.emit(&s);
        let mut s = String::from("\"ev\":\"mat\",\"t\":\"f64\",");
        mat_event!(s, f64, m_f64, j_m64, j_v64, bits_m64, fx64, a, b, v, u, *x);
        sh.emit(&s);
        n += 2;
    }
    // scalar_div on operands far below the 1e-16 resolution of the decimal wire format (still inside [-2, 2]): dividend and
    // divisor are logged as exact mantissa/exponent pairs and TLC forms the quotient in the log domain.  A division done
    // as a multiplication by the reciprocal is exact to 1-2 ulp everywhere EXCEPT where 1/x overflows.
    {
        let mut samples: Vec<(f32, f32)> = Vec::new();
        let tiny = [1.0e-39f32, 3.0e-41, f32::MIN_POSITIVE, 2.5e-38, 1.0e-30, 7.0e-45, 1.0e-20];
        for &x in &tiny {
            for &v in &tiny {
                for (sv, sx) in [(1.0f32, 1.0f32), (-1.0, 1.0), (1.0, -1.0)] {
                    samples.push((sv * v, sx * x));
                }
            }
            samples.push((0.0, x));
            samples.push((-0.0, -x));
        }
        for _ in 0..(if o.thorough { 4000 } else { 300 }) {
            let e = -(rng.below(120) as i32) - 20;
            let x = (rng.range(1.0, 2.0) as f32) * 2f32.powi(e);
            let v = (rng.range(-2.0, 2.0) as f32) * 2f32.powi(e - 8 + rng.below(16) as i32);
            samples.push((v, x));
        }
        for chunk in samples.chunks(64) {
            let mut s = String::from("\"ev\":\"sdiv\",\"t\":\"f32\",\"s\":");
            list(&mut s, chunk, |o2, (v, x)| {
                let rv = catch_unwind(AssertUnwindSafe(|| RowVector::from([*v, -*v, 0.5 * *v]).scalar_div(*x).values())).unwrap_or([f32::NAN; 3]);
                let rm = catch_unwind(AssertUnwindSafe(|| m_f32(&[[f64::from(*v), 0.0, 0.0], [0.0, f64::from(*v), 0.0], [0.0, 0.0, f64::from(*v)]]).scalar_div(*x).values())).unwrap_or([[f32::NAN; 3]; 3]);
                o2.push('[');
                me32(o2, *v);
                o2.push(',');
                me32(o2, *x);
                for r in [rv[0], rm[1][1], rm[0][1]] {
                    o2.push(',');
                    me32(o2, r);
                }
                o2.push(']');
            });
            sh.emit(&s);
            n += 1;
        }
    }
    serde_json::json!({"calls": n * 17, "matrices": n, "distinct": n})
}

// ------------------------------------------------------------------------------------------
// C18
fn cbrt_inputs(o: &Opts, rng: &mut Rng) -> Vec<f32> {
    let mut v = Vec::new();
    // every binade x mantissa lattice
    let nm = if o.thorough { 64 } else { 6 };
    for e in 1u32..=254 {
        for k in 0..nm {
            let m = if k == 0 { 0 } else if k == 1 { 0x7f_ffff } else { rng.below(0x80_0000) as u32 };
            v.push(f32::from_bits((e << 23) | m));
        }
    }
    let nr = if o.thorough { 200_000 } else { 6000 };
    for _ in 0..nr {
        let b = (rng.next() as u32) & 0x7fff_ffff;
        let f = f32::from_bits(b);
        if f.is_normal() {
            v.push(f);
        }
    }
    // perfect cubes and their neighbours
    for i in 1..200u32 {
        let c = (i * i * i) as f32;
        for d in [-1i32, 0, 1] {
            v.push(f32::from_bits((c.to_bits() as i32 + d) as u32));
        }
    }
    // strided sweep of all positive normals, worst-by-screen per stratum (untrusted f64 screen)
    let (stride, strata) = if o.thorough { (64u32, 8192usize) } else { (1021u32, 768usize) };
    let lo = 0x0080_0000u32;
    let hi = 0x7f7f_ffffu32;
    let per = ((hi - lo) as usize / strata) + 1;
    let mut worst = vec![(-1.0f64, 0f32); strata];
    let mut b = lo + rng.below(u64::from(stride)) as u32;
    while b <= hi {
        let x = f32::from_bits(b);
        let t = crate::util::guard(|| cbrtf(x)).unwrap_or(f32::NAN);
        let r = f64::from(x).cbrt();
        let ulp = f64::from(f32::from_bits(t.to_bits() + 1)) - f64::from(t);
        let dev = ((f64::from(t) - r) / ulp).abs();
        let s = ((b - lo) as usize / per).min(strata - 1);
        let dev = if dev.is_nan() { f64::INFINITY } else { dev };
        if dev > worst[s].0 {
            worst[s] = (dev, x);
        }
        b = match b.checked_add(stride) {
            Some(n) => n,
            None => break,
        };
    }
    v.extend(worst.into_iter().filter(|w| w.0 >= 0.0).map(|w| w.1));
    v
}

/// exponents the library uses with powf (curve definitions), as f32 exactly as the code writes them
fn lib_exponents() -> Vec<f32> {
    vec![2.4, 1.0 / 2.4, 2.2, 1.0 / 2.2, 2.8, 1.0 / 2.8, 0.45, 1.0 / 0.45, 0.159_301_76, 78.84375, 1.0 / 0.159_301_76, 1.0 / 78.84375]
}

pub fn gen_c18(sh: &mut Shards, o: &Opts) -> serde_json::Value {
    let mut rng = Rng::new(o.seed, 0x1818);
    let mut calls = 0u64;
    // --- cbrtf: [x, t, f(-x)] as exact (class, sign, m, e) and bits
    let xs = cbrt_inputs(o, &mut rng);
    for chunk in xs.chunks(96) {
        let mut s = String::from("\"ev\":\"cbrt\",\"s\":");
        list(&mut s, chunk, |o2, x| {
            let t = crate::util::guard(|| cbrtf(*x)).unwrap_or(f32::NAN);
            let tn = crate::util::guard(|| cbrtf(-*x)).unwrap_or(f32::NAN);
            o2.push('[');
            me32(o2, *x);
            o2.push(',');
            me32(o2, t);
            o2.push(',');
            bits32(o2, t);
            o2.push(',');
            bits32(o2, tn);
            o2.push(']');
        });
        sh.emit(&s);
        calls += 2 * chunk.len() as u64;
    }
    // --- powf
    let mut ps: Vec<(f32, f32)> = Vec::new();
    let nm = if o.thorough { 24 } else { 3 };
    for y in lib_exponents() {
        for e in 1u32..=254 {
            for k in 0..nm {
                let m = if k == 0 { 0 } else { rng.below(0x80_0000) as u32 };
                ps.push((f32::from_bits((e << 23) | m), y));
            }
        }
        // the unit interval, where the curves live
        for _ in 0..(if o.thorough { 4000 } else { 250 }) {
            ps.push((rng.unit() as f32, y));
            ps.push((2f64.powf(rng.range(-40.0, 0.0)) as f32, y));
        }
    }
    // 10^z form: powf(10, z), z in [-2.5, 0]
    for _ in 0..(if o.thorough { 4000 } else { 300 }) {
        ps.push((10.0, rng.range(-2.5, 0.0) as f32));
    }
    for _ in 0..(if o.thorough { 200_000 } else { 5000 }) {
        let x = f32::from_bits(((rng.below(254) as u32 + 1) << 23) | rng.below(0x80_0000) as u32);
        let y = rng.range(-80.0, 80.0) as f32;
        ps.push((x, y));
        // small exponents / exponents near 1
        ps.push((x, rng.range(-2.0, 2.0) as f32));
    }
    // screened sweep of ALL positive normal x for every exponent the library uses (strided in quick): worst per stratum
    {
        let (stride, strata) = if o.thorough { (16u32, 512usize) } else { (4099u32, 48usize) };
        let (lo, hi) = (0x0080_0000u32, 0x7f7f_ffffu32);
        let per = ((hi - lo) as usize / strata) + 1;
        for y in lib_exponents() {
            let mut worst = vec![(-1.0f64, 0f32); strata];
            let mut b = lo + rng.below(u64::from(stride)) as u32;
            while b <= hi {
                let x = f32::from_bits(b);
                let t = f64::from(x).powf(f64::from(y));
                if t > 1e-35 && t < 1e35 {
                    let r = crate::util::guard(|| powf(x, y)).unwrap_or(f32::NAN);
                    let dev = ((f64::from(r) - t) / t).abs();
                    let dev = if dev.is_nan() { f64::INFINITY } else { dev };
                    let s = ((b - lo) as usize / per).min(strata - 1);
                    if dev > worst[s].0 {
                        worst[s] = (dev, x);
                    }
                }
                b = match b.checked_add(stride) {
                    Some(n) => n,
                    None => break,
                };
            }
            ps.extend(worst.into_iter().filter(|w| w.0 >= 0.0).map(|w| (w.1, y)));
        }
    }
    // two-stage screened search for accuracy corners of powf = exp2(y log2 x) (untrusted f64 screen, inputs only):
    // the log2 error depends on the mantissa alone and is amplified by |y|, the exp2 error on the fractional part of the
    // product.  Stage 1 ranks mantissas at y = +-80, stage 2 sweeps y finely for the worst mantissas; the worst go to TLC.
    {
        let mstride: u32 = if o.thorough { 1 } else { 8 };
        let keep = if o.thorough { 256 } else { 96 };
        let ysteps = if o.thorough { 40_000 } else { 2_500 };
        let score = |x: f32, y: f32| -> f64 {
            let r = crate::util::guard(|| powf(x, y)).unwrap_or(f32::NAN);
            let t = f64::from(x).powf(f64::from(y));
            let dev = ((f64::from(r) - t) / t).abs();
            let dev = if dev.is_nan() { f64::INFINITY } else { dev };
            dev / (2.5e-4 + 8e-6 * f64::from(y.abs()))
        };
        for y0 in [80.0f32, -80.0] {
            let mut worst: Vec<(f64, u32)> = Vec::new();
            let mut m = rng.below(u64::from(mstride)) as u32;
            while m < 0x80_0000 {
                let x = f32::from_bits(0x3f80_0000 | m);
                let sc = score(x, y0);
                if worst.len() < keep || sc > worst[worst.len() - 1].0 {
                    worst.push((sc, m));
                    worst.sort_by(|a, b| b.0.partial_cmp(&a.0).unwrap_or(std::cmp::Ordering::Equal));
                    worst.truncate(keep);
                }
                m += mstride;
            }
            for &(_, m) in &worst {
                for base in [0x3f80_0000u32, 0x3f00_0000, 0x4000_0000] {
                    let x = f32::from_bits(base | m);
                    let mut best = [(-1.0f64, 0f32); 2];
                    for k in 0..ysteps {
                        let y = y0.signum() * (30.0 + 50.0 * (k as f32 + rng.unit() as f32) / ysteps as f32);
                        let sc = score(x, y);
                        if sc > best[1].0 {
                            best[1] = (sc, y);
                            if best[1].0 > best[0].0 {
                                best.swap(0, 1);
                            }
                        }
                    }
                    for b in best {
                        if b.0 >= 0.0 {
                            ps.push((x, b.1));
                        }
                    }
                }
            }
        }
    }
    // the EDGE of the domain: for a grid of exponents (multiples of 1/8, and just beside every half-integer, where a split
    // into integer part and remainder changes its mind) the two bases whose true result lies just inside [1e-35, 1e35].
    // Intermediate overflow / underflow of a reformulated power (x^n * x^r, repeated squaring, exp of a sum) shows here.
    {
        let mut ys: Vec<f32> = Vec::new();
        let step = if o.thorough { 64 } else { 8 };
        for k in 1..=(80 * step) {
            ys.push(k as f32 / step as f32);
        }
        for k in 0..80 {
            for j in [6, 10, 14, 20] {
                let d = 2f32.powi(-j);
                ys.push(k as f32 + 0.5 + d);
                ys.push(k as f32 + 0.5 - d);
            }
            ys.push(k as f32 + 0.5);
        }
        let ph = rng.unit();
        for (i, &ya) in ys.iter().enumerate() {
            for sg in [1.0f32, -1.0] {
                let y = sg * ya;
                for target in [8.0e34f64 * (1.0 - 0.3 * ph), 1.3e-35 * (1.0 + 0.3 * ph), if i % 2 == 0 { 1.0e30 } else { 1.0e-30 }] {
                    let x = (target.ln() / f64::from(y)).exp() as f32;
                    if x.is_normal() && x > 0.0 {
                        let t = f64::from(x).powf(f64::from(y));
                        if t > 1e-35 && t < 1e35 {
                            ps.push((x, y));
                        }
                    }
                }
            }
        }
    }
    // interleave the exponents (a value-keyed memo of the last exponent / base would otherwise never be disturbed)
    for i in (1..ps.len()).rev() {
        let j = rng.below(i as u64 + 1) as usize;
        ps.swap(i, j);
    }
    for chunk in ps.chunks(96) {
        let mut s = String::from("\"ev\":\"pow\",\"s\":");
        list(&mut s, chunk, |o2, (x, y)| {
            let r = crate::util::guard(|| powf(*x, *y)).unwrap_or(f32::NAN);
            o2.push('[');
            me32(o2, *x);
            o2.push(',');
            fx32(o2, *y);
            o2.push(',');
            me32(o2, r);
            o2.push(']');
        });
        sh.emit(&s);
        calls += chunk.len() as u64;
    }
    // --- expf
    let mut es: Vec<f32> = vec![-85.0, 85.0, 0.0, -0.0, 1.0, -1.0, 89.0, -88.0, 1e38, -1e38, 88.99, 100.0, -100.0, 1e10, -1e10, 3e30, -3e30];
    for _ in 0..(if o.thorough { 100_000 } else { 4000 }) {
        es.push(rng.range(-85.0, 85.0) as f32);
        es.push(rng.range(-2.0, 2.0) as f32);
    }
    // the saturation edges on a fine linear grid (a scale factor assembled from exponent bits wraps just beyond them)
    {
        let ph = rng.unit() as f32 / 16.0;
        let mut x = 85.0f32 + ph;
        while x < 200.0 {
            es.push(x);
            es.push(-x);
            x += if o.thorough { 1.0 / 64.0 } else { 1.0 / 8.0 };
        }
    }
    for _ in 0..(if o.thorough { 5000 } else { 400 }) {
        es.push(10f64.powf(rng.range(89f64.log10(), 38.0)) as f32);
        es.push(-(10f64.powf(rng.range(88f64.log10(), 38.0)) as f32));
    }
    // screened sweep of all f32 in [-85, 85] (strided in quick): worst relative deviation per stratum
    {
        let stride: u32 = if o.thorough { 8 } else { 1021 };
        for sign in [0u32, 0x8000_0000] {
            let top = 85f32.to_bits();
            let strata = if o.thorough { 2048usize } else { 96 };
            let per = (top as usize / strata) + 1;
            let mut worst = vec![(-1.0f64, 0f32); strata];
            let mut b = rng.below(u64::from(stride)) as u32;
            while b <= top {
                let x = f32::from_bits(b | sign);
                let r = crate::util::guard(|| expf(x)).unwrap_or(f32::NAN);
                let t = f64::from(x).exp();
                let dev = ((f64::from(r) - t) / t).abs();
                let dev = if dev.is_nan() { f64::INFINITY } else { dev };
                let s = (b as usize / per).min(strata - 1);
                if dev > worst[s].0 {
                    worst[s] = (dev, x);
                }
                b += stride;
            }
            es.extend(worst.into_iter().filter(|w| w.0 >= 0.0).map(|w| w.1));
        }
    }
    for chunk in es.chunks(96) {
        let mut s = String::from("\"ev\":\"exp\",\"s\":");
        list(&mut s, chunk, |o2, x| {
            let r = crate::util::guard(|| expf(*x)).unwrap_or(f32::NAN);
            o2.push('[');
            fx32(o2, *x);
            o2.push(',');
            me32(o2, *x);
            o2.push(',');
            me32(o2, r);
            o2.push(']');
        });
        sh.emit(&s);
        calls += chunk.len() as u64;
    }
    // --- totality: special values and random bit patterns, panics caught, exp2 hook in summary mode
    let tot = totality(o, &mut rng, sh);
    calls += tot;
    serde_json::json!({"calls": calls, "distinct": calls})
}

pub const SPECIALS: [u32; 26] = [
    0x7fc0_0000, 0xffc0_0000, 0x7f80_0001, 0x7f80_0000, 0xff80_0000, 0x7f7f_ffff, 0xff7f_ffff, 0x7f61_b1e6, 0xff61_b1e6, 0x0000_0000, 0x8000_0000,
    0x0000_0001, 0x8000_0001, 0x0080_0000, 0x8080_0000, 0xbf80_0000, 0x8db2_4ce1, 0x3f00_0000, 0x3f80_0000, 0x3f80_0001, 0x3fc0_0000, 0x437f_0000,
    0x477f_ff00, 0x5015_02f9, 0x42b2_0000, 0xc2b0_0000,
];

fn hook_json(s: &mut String) {
    let sums = hooks::drain_summaries();
    s.push_str("\"hooks\":[");
    for (i, h) in sums.iter().enumerate() {
        if i > 0 {
            s.push(',');
        }
        let _ = write!(s, "{{\"site\":\"{}\",\"n\":{},\"bad\":{},\"first_bad\":", h.site, h.count, h.bad);
        match h.first_bad {
            Some((a, _)) => {
                let _ = write!(s, "[{},{}]", a >> 16, a & 0xffff);
            }
            None => s.push_str("[]"),
        }
        s.push_str(",\"fmin\":");
        fx32(s, h.fmin);
        s.push_str(",\"fmax\":");
        fx32(s, h.fmax);
        s.push('}');
    }
    s.push(']');
}

fn totality(o: &Opts, rng: &mut Rng, sh: &mut Shards) -> u64 {
    let mut n = 0u64;
    let sp: Vec<f32> = SPECIALS.iter().map(|b| f32::from_bits(*b)).collect();
    let nrand = if o.thorough { 2_000_000 } else { 100_000 };
    let prev = std::panic::take_hook();
    std::panic::set_hook(Box::new(|_| {}));
    // each function separately so that a finding names the function
    for fname in ["cbrtf", "expf", "powf"] {
        hooks::enable(hooks::Mode::Summary);
        let mut panics = 0u64;
        let mut first: Option<(u32, u32)> = None;
        let mut cnt = 0u64;
        let mut call = |x: f32, y: f32, panics: &mut u64, first: &mut Option<(u32, u32)>| {
            let r = catch_unwind(AssertUnwindSafe(|| match fname {
                "cbrtf" => cbrtf(x),
                "expf" => expf(x),
                _ => powf(x, y),
            }));
            if r.is_err() {
                *panics += 1;
                if first.is_none() {
                    *first = Some((x.to_bits(), y.to_bits()));
                }
            }
        };
        for &x in &sp {
            if fname == "powf" {
                for &y in &sp {
                    call(x, y, &mut panics, &mut first);
                    cnt += 1;
                }
            } else {
                call(x, 0.0, &mut panics, &mut first);
                cnt += 1;
            }
        }
        for _ in 0..nrand {
            let x = f32::from_bits(rng.next() as u32);
            let y = f32::from_bits(rng.next() as u32);
            call(x, y, &mut panics, &mut first);
            cnt += 1;
        }
        let mut s = String::new();
        let _ = write!(s, "\"ev\":\"mathtot\",\"fn\":\"{fname}\",\"n\":{cnt},\"panics\":{panics},\"first_panic\":");
        match first {
            Some((a, b)) => {
                let _ = write!(s, "[[{},{}],[{},{}]]", a >> 16, a & 0xffff, b >> 16, b & 0xffff);
            }
            None => s.push_str("[]"),
        }
        s.push(',');
        hook_json(&mut s);
        sh.emit(&s);
        n += cnt;
    }
    hooks::enable(hooks::Mode::Off);
    std::panic::set_hook(prev);
    n
}
