//! C09: YUV -> XYB -> YUV returns the image within a small code budget, for every supported
//! (matrix, transfer, primaries, range) tuple; depth and subsampling rotate over the tuples.

use std::fmt::Write as _;

use yuvxyb::{Pixel, Rgb, Xyb, Yuv};

use crate::frames::{cfg_json_of, plane_samples, Cfg};
use crate::util::{cp, list, px_bits, tc, Rng, Shards, CP_SUP, MC_STD, TC_SUP};
use crate::Opts;

fn image(rng: &mut Rng, w: usize, h: usize, bx: usize, by: usize) -> Vec<[f32; 3]> {
    // block-constant (bx x by) image: grey ramp, primaries/secondaries, near-black ladder, random colours
    let (cw, ch) = (w / bx, h / by);
    let mut cells: Vec<[f32; 3]> = Vec::with_capacity(cw * ch);
    let n = cw * ch;
    for i in 0..n {
        let t = i % 4;
        let v = match t {
            0 => {
                let g = (i / 4) as f32 / ((n / 4).max(1)) as f32;
                [g, g, g]
            }
            1 => {
                let k = (i / 4) % 8;
                [(k & 1) as f32, ((k >> 1) & 1) as f32, ((k >> 2) & 1) as f32]
            }
            2 => {
                let e = 2f32.powi(-(1 + ((i / 4) % 12) as i32));
                match (i / 48) % 4 {
                    0 => [e, e, e],
                    1 => [e, 0.0, 0.0],
                    2 => [0.0, e, 0.0],
                    _ => [0.0, 0.0, e],
                }
            }
            _ => [rng.unit() as f32, rng.unit() as f32, rng.unit() as f32],
        };
        cells.push(v);
    }
    let mut px = vec![[0f32; 3]; w * h];
    for y in 0..h {
        for x in 0..w {
            px[y * w + x] = cells[(y / by) * cw + (x / bx)];
        }
    }
    px
}

fn session<T: Pixel>(sh: &mut Shards, c: &Cfg, st: u8, rng: &mut Rng) {
    let (w, h) = (16usize, 16usize);
    let px = image(rng, w, h, 1 << c.ssx, 1 << c.ssy);
    let mut s = String::new();
    let _ = write!(s, "\"ev\":\"c09\",\"cfg\":{},\"st\":{st},\"w\":{w},\"h\":{h},\"rgb\":", c.json());
    list(&mut s, &px, px_bits);
    let r: Result<(), String> = crate::util::guard_s(|| {
        let rgb = Rgb::new(px.clone(), w, h, tc(c.tc), cp(c.cp)).map_err(|_| "ctor".to_string())?;
        let yuv = Yuv::<T>::try_from((&rgb, c.yuv_config())).map_err(|e| format!("RgbToYuv:{}", crate::frames::err_name_conv(e)))?;
        let xyb = Xyb::try_from(&yuv).map_err(|e| format!("YuvToXyb:{}", crate::frames::err_name_conv(e)))?;
        let back = Yuv::<T>::try_from((xyb, yuv.config())).map_err(|e| format!("XybToYuv:{}", crate::frames::err_name_conv(e)))?;
        let _ = write!(s, ",\"cfgi\":{},\"cfgo\":{},\"wo\":{},\"ho\":{},\"in\":[", cfg_json_of(&yuv.config()), cfg_json_of(&back.config()), back.width(), back.height());
        for (k, y) in [&yuv, &back].iter().enumerate() {
            if k == 1 {
                s.push_str("],\"out\":[");
            }
            for p in 0..3 {
                if p > 0 {
                    s.push(',');
                }
                list(&mut s, &plane_samples(y, p), |o, v| {
                    let _ = write!(o, "{v}");
                });
            }
        }
        s.push(']');
        Ok(())
    });
    match r {
        Ok(()) => s.push_str(",\"res\":\"ok\""),
        Err(e) => {
            let _ = write!(s, ",\"res\":\"{e}\"");
        }
    }
    sh.emit(&s);
}

/// H.273 quantisation in f64, used ONLY to construct an in-gamut YUV input that does not come out of the crate's own
/// encoder; TLC re-checks on the logged RGB that every input code is within half a code of EncodeIdeal (domain check).
fn encode_indep(c: &Cfg, p: &[f32; 3]) -> [u16; 3] {
    let (r, g, b) = (f64::from(p[0]), f64::from(p[1]), f64::from(p[2]));
    let (y, cb, cr) = if c.mc == 8 {
        (0.25 * r + 0.5 * g + 0.25 * b, -0.25 * r + 0.5 * g - 0.25 * b, 0.5 * r - 0.5 * b)
    } else {
        let (kr, kb) = match c.mc {
            1 => (0.2126, 0.0722),
            4 => (0.30, 0.11),
            5 | 6 => (0.299, 0.114),
            7 => (0.212, 0.087),
            _ => (0.2627, 0.0593),
        };
        let y = kr * r + (1.0 - kr - kb) * g + kb * b;
        (y, (b - y) / (2.0 * (1.0 - kb)), (r - y) / (2.0 * (1.0 - kr)))
    };
    let k = f64::from(1u32 << (c.n - 8));
    let maxc = f64::from((1u32 << c.n) - 1);
    let (ys, yo, cs, co) = if c.full { (maxc, 0.0, maxc, f64::from(1u32 << (c.n - 1))) } else { (219.0 * k, 16.0 * k, 224.0 * k, 128.0 * k) };
    let q = |v: f64| v.round().clamp(0.0, maxc) as u16;
    [q(ys * y + yo), q(cs * cb + co), q(cs * cr + co)]
}

fn session_indep<T: Pixel>(sh: &mut Shards, c: &Cfg, st: u8, rng: &mut Rng) {
    let (w, h) = (8usize, 8usize);
    let px = image(rng, w, h, 1 << c.ssx, 1 << c.ssy);
    let codes: Vec<[u16; 3]> = px.iter().map(|p| encode_indep(c, p)).collect();
    let mut s = String::new();
    let _ = write!(s, "\"ev\":\"c09i\",\"cfg\":{},\"st\":{st},\"w\":{w},\"h\":{h},\"rgb\":", c.json());
    list(&mut s, &px, crate::util::px_fx);
    s.push_str(",\"codes\":");
    list(&mut s, &codes, |o, v| {
        let _ = write!(o, "[{},{},{}]", v[0], v[1], v[2]);
    });
    let r: Result<(), String> = crate::util::guard_s(|| {
        // plane layouts rotate: tight, V padded only, U padded only, horizontal-only paddings
        let pads = [[(0usize, 0usize); 3], [(0, 0), (0, 0), (16, 0)], [(0, 0), (16, 2), (0, 0)], [(3, 0), (0, 1), (33, 0)]][(codes[0][0] as usize + codes[codes.len() - 1][2] as usize) % 4];
        let yuv = Yuv::<T>::new(crate::frames::frame_from_pixels::<T>(&codes, w, h, c.ssx, c.ssy, pads), c.yuv_config()).map_err(|e| format!("ctor:{}", crate::frames::err_name_yuv(e)))?;
        let xyb = Xyb::try_from(&yuv).map_err(|e| format!("YuvToXyb:{}", crate::frames::err_name_conv(e)))?;
        let back = Yuv::<T>::try_from((xyb, yuv.config())).map_err(|e| format!("XybToYuv:{}", crate::frames::err_name_conv(e)))?;
        let _ = write!(s, ",\"cfgi\":{},\"cfgo\":{},\"wo\":{},\"ho\":{},\"in\":[", cfg_json_of(&yuv.config()), cfg_json_of(&back.config()), back.width(), back.height());
        for (k, y) in [&yuv, &back].iter().enumerate() {
            if k == 1 {
                s.push_str("],\"out\":[");
            }
            for p in 0..3 {
                if p > 0 {
                    s.push(',');
                }
                list(&mut s, &plane_samples(y, p), |o, v| {
                    let _ = write!(o, "{v}");
                });
            }
        }
        s.push(']');
        Ok(())
    });
    match r {
        Ok(()) => s.push_str(",\"res\":\"ok\""),
        Err(e) => {
            let _ = write!(s, ",\"res\":\"{e}\"");
        }
    }
    sh.emit(&s);
}

/// a large 4:4:4 frame through the same session; only probed positions are logged (ev = "c09p")
fn session_big(sh: &mut Shards, c: &Cfg, rng: &mut Rng) {
    session_big_wh(sh, c, rng, 701, 523);
}
/// the same for any size and subsampling: the picture is constant within each chroma block (the statement's condition for
/// subsampled images) and differs from block to block; a probed position is logged as <<own luma, chroma of its block>>
fn session_big_wh(sh: &mut Shards, c: &Cfg, rng: &mut Rng, w: usize, h: usize) {
    let (bw, bh) = (w >> c.ssx, h >> c.ssy);
    let blocks: Vec<[f32; 3]> = (0..bw * bh).map(|i| if i % 7 == 0 { let g = rng.unit() as f32; [g, g, g] } else { [rng.unit() as f32, rng.unit() as f32, rng.unit() as f32] }).collect();
    let px: Vec<[f32; 3]> = if c.ssx == 0 && c.ssy == 0 { blocks } else { (0..w * h).map(|i| blocks[((i / w) >> c.ssy) * bw + ((i % w) >> c.ssx)]).collect() };
    let idx = crate::util::probe_indices(w * h, w, rng);
    let mut s = String::new();
    let _ = write!(s, "\"ev\":\"c09p\",\"cfg\":{},\"st\":16,\"w\":{w},\"h\":{h},\"rgb\":", c.json());
    let sel: Vec<[f32; 3]> = idx.iter().map(|&i| px[i]).collect();
    list(&mut s, &sel, px_bits);
    let r: Result<(), String> = crate::util::guard_s(|| {
        let rgb = Rgb::new(px.clone(), w, h, tc(c.tc), cp(c.cp)).map_err(|_| "ctor".to_string())?;
        let yuv = Yuv::<u16>::try_from((&rgb, c.yuv_config())).map_err(|e| format!("RgbToYuv:{}", crate::frames::err_name_conv(e)))?;
        let xyb = Xyb::try_from(&yuv).map_err(|e| format!("YuvToXyb:{}", crate::frames::err_name_conv(e)))?;
        let back = Yuv::<u16>::try_from((xyb, yuv.config())).map_err(|e| format!("XybToYuv:{}", crate::frames::err_name_conv(e)))?;
        let _ = write!(s, ",\"cfgi\":{},\"cfgo\":{},\"wo\":{},\"ho\":{}", cfg_json_of(&yuv.config()), cfg_json_of(&back.config()), back.width(), back.height());
        for (key, y) in [("in", &yuv), ("out", &back)] {
            let pl = [plane_samples(y, 0), plane_samples(y, 1), plane_samples(y, 2)];
            if pl[0].len() != w * h || pl[1].len() != bw * bh || pl[2].len() != bw * bh {
                return Err("shape".to_string());
            }
            let cpos = |i: usize| ((i / w) >> c.ssy) * bw + ((i % w) >> c.ssx);
            let v: Vec<[u16; 3]> = idx.iter().map(|&i| [pl[0][i], pl[1][cpos(i)], pl[2][cpos(i)]]).collect();
            let _ = write!(s, ",\"{key}\":");
            list(&mut s, &v, |o, t| {
                let _ = write!(o, "[{},{},{}]", t[0], t[1], t[2]);
            });
        }
        Ok(())
    });
    match r {
        Ok(()) => s.push_str(",\"res\":\"ok\""),
        Err(e) => {
            let _ = write!(s, ",\"res\":\"{e}\"");
        }
    }
    sh.emit(&s);
}

pub fn gen_c09(sh: &mut Shards, o: &Opts, indep: bool) -> serde_json::Value {
    if !indep {
        let mut rng = Rng::new(o.seed, 0x0909_b160);
        for k in 0..(if o.thorough { 40 } else { 8 }) {
            let c = Cfg { mc: MC_STD[k % 7], tc: TC_SUP[(k * 3 + 1) % 14], cp: [1u8, 4, 5, 6, 7, 8, 9, 11, 12, 22][(k * 7) % 10], full: k % 2 == 1, n: [10u8, 16, 8, 12][k % 4], ssx: 0, ssy: 0 };
            session_big(sh, &c, &mut rng);
            // subsampled pictures of 0.3 .. 4.2 million pixels (row-band splits must keep every row on its own chroma row)
            if !o.mini && (o.thorough || k < 3) {
                let (w, h) = [(640usize, 480usize), (1366, 768), (2048, 2050), (1920, 1084)][k % 4];
                let cs = Cfg { ssx: [1u8, 0, 1, 1][k % 4], ssy: 1, ..c };
                session_big_wh(sh, &cs, &mut rng, w, h);
            }
        }
    }
    let subs = [(0u8, 0u8), (1, 0), (1, 1), (0, 1), (2, 0), (2, 2)];
    let mut k = (o.seed % 54) as usize;
    let mut n = 0u64;
    for &m in &MC_STD {
        for &t in &TC_SUP {
            for &p in CP_SUP.iter().filter(|&&p| p != 10) {
                for full in [false, true] {
                    let combos: Vec<(u8, (u8, u8))> = if o.thorough {
                        let mut v = Vec::new();
                        for d in [8u8, 10, 12, 16] {
                            for s in subs {
                                v.push((d, s));
                            }
                        }
                        // and the remaining depths at 4:4:4
                        for d in [9u8, 11, 13, 14, 15] {
                            v.push((d, (0, 0)));
                        }
                        v
                    } else {
                        k += 1;
                        vec![(8 + (k % 9) as u8, subs[(k / 9) % 6]), (8 + ((k + 4) % 9) as u8, (0, 0))]
                    };
                    for (d, (sx, sy)) in combos {
                        let c = Cfg { mc: m, tc: t, cp: p, full, n: d, ssx: sx, ssy: sy };
                        let mut rng = Rng::new(o.seed, 0x0909_0000 + n);
                        match (d == 8 && n % 2 == 0, indep) {
                            (true, false) => session::<u8>(sh, &c, 8, &mut rng),
                            (true, true) => session_indep::<u8>(sh, &c, 8, &mut rng),
                            (false, false) => session::<u16>(sh, &c, 16, &mut rng),
                            (false, true) => session_indep::<u16>(sh, &c, 16, &mut rng),
                        }
                        n += 1;
                    }
                }
            }
        }
    }
    serde_json::json!({"calls": n * 3, "sessions": n, "tuples": 7 * 14 * 10 * 2, "pixels": n * 256, "distinct": n})
}
