//! C09: YUV -> XYB -> YUV returns the image within a small code budget, for every supported
//! (matrix, transfer, primaries, range) tuple; depth and subsampling rotate over the tuples.

use std::fmt::Write as _;

use yuvxyb::{Pixel, Rgb, Xyb, Yuv};

use crate::frames::{cfg_json_of, plane_samples, Cfg};
use crate::util::{cp, list, px_bits, tc, Rng, Shards, CP_SUP, MC_STD, TC_SUP};
use crate::Opts;

fn image(rng: &mut Rng, w: usize, h: usize, bx: usize, by: usize) -> Vec<[f32; 3]> {
    // block-constant (bx x by) image: grey ramp, primaries/secondaries, near-black ladder, random colours
    let (cw, ch) = (w / bx, h / by);
    let mut cells: Vec<[f32; 3]> = Vec::with_capacity(cw * ch);
    let n = cw * ch;
    for i in 0..n {
        let t = i % 4;
        let v = match t {
            0 => {
                let g = (i / 4) as f32 / ((n / 4).max(1)) as f32;
                [g, g, g]
            }
            1 => {
                let k = (i / 4) % 8;
                [(k & 1) as f32, ((k >> 1) & 1) as f32, ((k >> 2) & 1) as f32]
            }
            2 => {
                let e = 2f32.powi(-(1 + ((i / 4) % 12) as i32));
                match (i / 48) % 4 {
                    0 => [e, e, e],
                    1 => [e, 0.0, 0.0],
                    2 => [0.0, e, 0.0],
                    _ => [0.0, 0.0, e],
                }
            }
            _ => [rng.unit() as f32, rng.unit() as f32, rng.unit() as f32],
        };
        cells.push(v);
    }
    let mut px = vec![[0f32; 3]; w * h];
    for y in 0..h {
        for x in 0..w {
            px[y * w + x] = cells[(y / by) * cw + (x / bx)];
        }
    }
    px
}

fn session<T: Pixel>(sh: &mut Shards, c: &Cfg, st: u8, rng: &mut Rng) {
    let (w, h) = (16usize, 16usize);
    let px = image(rng, w, h, 1 << c.ssx, 1 << c.ssy);
    let mut s = String::new();
    let _ = write!(s, "\"ev\":\"c09\",\"cfg\":{},\"st\":{st},\"w\":{w},\"h\":{h},\"rgb\":", c.json());
    list(&mut s, &px, px_bits);
    let r: Result<(), String> = (|| {
        let rgb = Rgb::new(px.clone(), w, h, tc(c.tc), cp(c.cp)).map_err(|_| "ctor".to_string())?;
        let yuv = Yuv::<T>::try_from((&rgb, c.yuv_config())).map_err(|e| format!("RgbToYuv:{}", crate::frames::err_name_conv(e)))?;
        let xyb = Xyb::try_from(&yuv).map_err(|e| format!("YuvToXyb:{}", crate::frames::err_name_conv(e)))?;
        let back = Yuv::<T>::try_from((xyb, yuv.config())).map_err(|e| format!("XybToYuv:{}", crate::frames::err_name_conv(e)))?;
        let _ = write!(s, ",\"cfgi\":{},\"cfgo\":{},\"wo\":{},\"ho\":{},\"in\":[", cfg_json_of(&yuv.config()), cfg_json_of(&back.config()), back.width(), back.height());
        for (k, y) in [&yuv, &back].iter().enumerate() {
            if k == 1 {
                s.push_str("],\"out\":[");
            }
            for p in 0..3 {
                if p > 0 {
                    s.push(',');
                }
                list(&mut s, &plane_samples(y, p), |o, v| {
                    let _ = write!(o, "{v}");
                });
            }
        }
        s.push(']');
        Ok(())
    })();
    match r {
        Ok(()) => s.push_str(",\"res\":\"ok\""),
        Err(e) => {
            let _ = write!(s, ",\"res\":\"{e}\"");
        }
    }
    sh.emit(&s);
}

pub fn gen_c09(sh: &mut Shards, o: &Opts) -> serde_json::Value {
    let subs = [(0u8, 0u8), (1, 0), (1, 1), (0, 1), (2, 0), (2, 2)];
    let mut k = (o.seed % 54) as usize;
    let mut n = 0u64;
    for &m in &MC_STD {
        for &t in &TC_SUP {
            for &p in CP_SUP.iter().filter(|&&p| p != 10) {
                for full in [false, true] {
                    let combos: Vec<(u8, (u8, u8))> = if o.thorough {
                        let mut v = Vec::new();
                        for d in [8u8, 10, 12, 16] {
                            for s in subs {
                                v.push((d, s));
                            }
                        }
                        // and the remaining depths at 4:4:4
                        for d in [9u8, 11, 13, 14, 15] {
                            v.push((d, (0, 0)));
                        }
                        v
                    } else {
                        k += 1;
                        vec![(8 + (k % 9) as u8, subs[(k / 9) % 6]), (8 + ((k + 4) % 9) as u8, (0, 0))]
                    };
                    for (d, (sx, sy)) in combos {
                        let c = Cfg { mc: m, tc: t, cp: p, full, n: d, ssx: sx, ssy: sy };
                        let mut rng = Rng::new(o.seed, 0x0909_0000 + n);
                        if d == 8 && n % 2 == 0 {
                            session::<u8>(sh, &c, 8, &mut rng);
                        } else {
                            session::<u16>(sh, &c, 16, &mut rng);
                        }
                        n += 1;
                    }
                }
            }
        }
    }
    serde_json::json!({"calls": n * 3, "sessions": n, "tuples": 7 * 14 * 10 * 2, "pixels": n * 256, "distinct": n})
}
